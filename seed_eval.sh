#!/bin/sh
# dev helper: seed_eval.sh <prop> <seed-dir> [test files...]
#   1. confirms the seeded change in a scratch worktree (demo passes clean, fails patched; listed tests pass patched)
#   2. applies it to /repo, runs ./check <prop> --tier quick, and reverts /repo
PROP=$1; DIR=$2; shift 2
WT=/tmp/ev_$$
git -C /repo worktree add -q $WT HEAD || exit 9
( cd $WT && PYTHONPATH=$WT/python PYTHONWARNINGS=ignore timeout 600 /venv/bin/python $DIR/demo.py >/tmp/ev_clean.log 2>&1 ); C=$?
git -C $WT apply $DIR/patch.diff || { echo "PATCH-DOES-NOT-APPLY"; git -C /repo worktree remove --force $WT; exit 9; }
( cd $WT && PYTHONPATH=$WT/python PYTHONWARNINGS=ignore timeout 600 /venv/bin/python $DIR/demo.py >/tmp/ev_patched.log 2>&1 ); P=$?
T=skipped
if [ $# -gt 0 ]; then
  ( cd $WT && PYTHONPATH=$WT/python timeout 3000 /venv/bin/python -m pytest -q -p no:cacheprovider --timeout=900 -x "$@" >/tmp/ev_tests.log 2>&1 ); T=$?
fi
git -C /repo worktree remove --force $WT
echo "demo clean=$C patched=$P tests=$T ($(tail -1 /tmp/ev_tests.log 2>/dev/null | cut -c1-80))"
git -C /repo apply $DIR/patch.diff || { echo "cannot apply to /repo"; exit 9; }
cd /verif
timeout 3000 ./check $PROP --tier quick > /tmp/ev_check.log 2>&1; R=$?
git -C /repo checkout -- .
echo "check rc=$R $(grep -c '^VIOLATION' /tmp/ev_check.log) violation line(s)"
grep -A1 '^VIOLATION' /tmp/ev_check.log | grep 'what:' | head -4
