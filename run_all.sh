#!/bin/sh
# dev helper: run every registered quick (or $1=thorough) check in sequence and summarise
TIER=${1:-quick}
cd "$(dirname "$0")"
for id in $(python3 -c "import json; print(' '.join(c['property_id'] for c in json.load(open('MANIFEST.json'))['checks']))"); do
  s=$(date +%s)
  ./check $id --tier $TIER > /tmp/run_all_$id.log 2>&1
  rc=$?
  e=$(date +%s)
  echo "$id rc=$rc $((e-s))s $(grep -c '^VIOLATION' /tmp/run_all_$id.log) violations $(grep -c '^KNOWN-FINDING' /tmp/run_all_$id.log) known"
done
