#!/bin/sh
# dev helper: re-verify every kept seeded change against the CURRENT /repo tree:
#   demo exits 0 clean / 1 patched (scratch worktree), and ./check <prop> reports a violation with the patch applied to /repo.
# usage: seed_recheck.sh [override-dir]   (override-dir/<name>/patch.diff is used instead of seeded/<name>/patch.diff when present)
cd "$(dirname "$0")"
OVR=${1:-/nonexistent}
for d in seeded/*/; do
  n=$(basename $d)
  prop=$(python3 -c "import json;print(json.load(open('$d/meta.json'))['property'])")
  patch=$PWD/$d/patch.diff
  [ -f $OVR/$n/patch.diff ] && patch=$OVR/$n/patch.diff
  if ! git -C /repo apply --check $patch 2>/dev/null; then echo "$n $prop NOAPPLY"; continue; fi
  WT=/tmp/rc_$$
  git -C /repo worktree add -q $WT HEAD
  ( cd $WT && PYTHONPATH=$WT/python PYTHONWARNINGS=ignore timeout 600 /venv/bin/python $OLDPWD/$d/demo.py >/dev/null 2>&1 ); C=$?
  git -C $WT apply $patch
  ( cd $WT && PYTHONPATH=$WT/python PYTHONWARNINGS=ignore timeout 600 /venv/bin/python $OLDPWD/$d/demo.py >/dev/null 2>&1 ); P=$?
  git -C /repo worktree remove --force $WT
  git -C /repo apply $patch
  timeout 3000 ./check $prop --tier quick > /tmp/rc_check.log 2>&1; R=$?
  git -C /repo checkout -- .
  echo "$n $prop demo_clean=$C demo_patched=$P check_rc=$R $(grep -m1 'what:' /tmp/rc_check.log | cut -c1-140)"
done
