#!/usr/bin/env python3
"""Regenerates MANIFEST.json from the table below (keeps the file valid and uniform)."""
import json
import os

HERE = os.path.dirname(os.path.abspath(__file__))
ALL = ['C%02d' % i for i in range(1, 21)]

E1 = 'bounded symbolic execution of the real functions with z3 (symx, every path re-validated natively)'
CHECKS = {
    'C12': dict(
        technique='bounded symbolic execution (z3, own executor): exit-reason sequences + inductive step over symbolic restart counters',
        text='Every feasible path of the real restart code (postMortemCheck -> _restartComponent -> ComponentState.restart -> '
             'Engine/RepeatingEngine.restart) is executed for all exit-reason sequences up to the bound, all policy options and '
             'hook outcomes; an inductive step from symbolic counters (z3 Ints) extends the budget claims to histories of any '
             'length under the stated invariants. Bounded, not a proof: see evidence bounds.',
        note='the rx composition of Engine.run is not executed, but its stage functions (InitPerformanceInfo, LaunchTask, SetLaunchTime, Wait, FinalisePerformanceInfo, HandleTaskExit) are lifted from its AST and every launch / task exit goes through them, with launch failures as a solver choice; hook import, stability tracker, sleep are stubs listed in the evidence; '
             'z3 and the symx executor are trusted; each path is re-run natively and compared.',
        design='DESIGN.md section 2 C12'),
}
CHECKS['C01'] = dict(
    technique='bounded symbolic execution (z3, own executor): one inductive scheduler step from a symbolic recorded state over symbolic DAG shapes',
    text='The real Controller._schedule/finalize_submit_components are executed from every recorded state (membership in '
         'comp_done/comp_staged_in, component states, options) satisfying the invariant, over every forward-edge DAG of the '
         'bounded size; launches are compared with the dependency rule. The invariant itself is re-established by '
         'finishedCheck/kill_all_components/init_comps in the same run, so the step extends to histories of any length '
         'for DAGs within the bound.',
    note='rx subscriptions recorded not threaded; stability/status/migration stubs; finishedCheck assumed to be called only for '
         'dead components (notifyFinished contract); z3 + symx trusted, every path re-run natively.',
    design='DESIGN.md section 2 C01')

CHECKS['C20'] = dict(
    engine='symx+astsym+cvc5',
    technique='SMT (QF_BVFP) over statements lifted from the AST of the real functions: cvc5/z3 decide path feasibility, assertions and lemmas over symbolic doubles and a symbolic stage count',
    text='The stage-weight block of FlowIR.inject_default_values, the weight block of StatusMonitor.__init__, the accumulation loops '
         'of CheckStatus and the progress expression of Controller.get_stage_status are lifted from the current source on every run and '
         'executed over IEEE-754 terms. For <=2 (thorough <=3) stages every double is covered; lemmas cover every stage count up to 4096. '
         'Every path model is replayed natively and the lifted block is compared with the real function on it. A second section executes the real '
         'StatusMonitor.run/CheckStatus on the real Controller.initialise/get_stages_finished/get_stages_in_transit/get_stage_status (stub '
         'experiment, <=3 (4) stages) with a symbolic starting stage, current stage and per-component phase.',
    note='trusted: z3/cvc5 FP theories = CPython float semantics, the 400-line AST interpreter (validated against the real function on '
         'every path model and on ~300 concrete inputs per run); logging statements skipped; tolerance n*2^-52 for "equals one".',
    design='DESIGN.md section 2 C20')

CHECKS['C17'] = dict(
    technique='bounded symbolic execution (z3, own executor) over selection/presence variables of the configuration, oracle = independent rule statement',
    text='Every combination of selected environment spelling, platform, named/package environment absent / defined empty / defined with contents on either platform, '
         'DEFAULTS list, launch-environment contents and interpreter flag within the bound is executed on the real '
         'environmentForNode and compared with an independent statement of the documented rules; exhaustive within the bound.',
    note='os.environ replaced by the symbolic launch environment; values are fixed tokens (no symbolic strings).',
    design='DESIGN.md section 2 C17')

CHECKS['C08'] = dict(
    technique='bounded symbolic execution (z3, own executor): inductive step over the cache invariant (cached subset, mutator, target symbolic)',
    text='From every cache state reachable by real queries over the base document (symbolic subset of cached entries), one arbitrary '
         'mutator with symbolic target/value is applied and every query is compared with a from-scratch resolution of raw(); the '
         'returned dictionaries are scribbled over to check they are private copies. One step from an arbitrary invariant state covers '
         'histories of any length for this document family; thorough adds a second round.',
    note='base document family is concrete (names chosen adversarially: regex-special, prefix pair, same name in two stages); '
         'reference = a fresh FlowIRConcrete of the same working tree.',
    design='DESIGN.md section 2 C08')

CHECKS['C04'] = dict(
    technique='bounded symbolic execution (z3, own executor): presence of a definition in every configuration layer is a solver variable; oracle = fold in documented order',
    text='For one variable (14 layer slots incl. two user files and a never-selected platform), one typed option (9 blueprint slots, '
         'int/str/reference values) and 3-variable reference chains (literal text chosen among texts with characters special to regex templates, str.format, %-formatting and the shell), every combination is executed on the real '
         'FlowIRConcrete.get_component_configuration and compared with the documented priority fold; exhaustive within the bound.',
    note='values are distinguishable tokens (no symbolic strings); read_user_variables stubbed; cyclic variable definitions excluded.',
    design='DESIGN.md section 2 C04')

CHECKS['C09'] = dict(
    engine='crosshair',
    technique='CrossHair symbolic execution (z3) of PEP316 contracts over the real parse/print/classify functions, symbolic characters; counterexamples replayed natively',
    text='Fourteen contracts (print/parse round trips, nested manifest keys, relative vs absolute spelling, idempotent expansion, classification of reserved / '
         'manifest / application-dependency / absolute / variable first segments, uid escaping) are searched by CrossHair with one symbolic '
         'string of <=3-4 characters each. Conditions CrossHair exhausts are discharged obligations within that length; the others are '
         'bug-hunting only (reported as inconclusive in the evidence).',
    note='CrossHair\'s str/regex model is trusted only for confirmations; every counterexample is replayed on the real code; each condition has a '
         'reachability twin that CrossHair must refute (vacuity guard); posixpath.normpath (C code rejecting symbolic strings) is replaced by '
         'CPython\'s pure-Python fallback, validated against the C function in every run; a native sweep over an 8-letter alphabet backs each contract.',
    design='DESIGN.md section 2 C09')

CHECKS['C10'] = dict(
    engine='crosshair',
    technique='CrossHair symbolic execution (z3) of the real resolveArguments with symbolic characters in a producer name; counterexamples replayed natively',
    text='The real ComponentSpecification.resolveArguments runs on a subclass overriding only data-providing properties; one producer name '
         '(<=2 symbolic characters of the alphabet the loader accepts in a reference token, [A-Za-z0-9_-]) is set against the representatives A, AB, A1 in both spellings, both declaration orders, option prefixes, '
         'output references, symbolic file contents of an :output reference, and the same name in two stages. Bug-hunting strength (CrossHair does not exhaust these conditions; '
         'one path through the function costs ~10 s); the substring-replacement defect it found is repaired (0a3e1fc).',
    note='DataReference.resolve stubbed to a distinct token per reference; is_raw=True (fill_in skipped); native sweep over a 6-letter alphabet.',
    design='DESIGN.md section 2 C10')

CHECKS['C03'] = dict(
    engine='symx+crosshair',
    technique='bounded symbolic execution (z3, own executor) of the real in-memory loader over a symbolic DAG skeleton vs an independent expander; CrossHair on the textual rewriting functions',
    text='E1: every skeleton of 4 (thorough 5) components over 2 (3) stages - forward edge subsets, aggregate flags, replica counts 1..3, '
         'literal or via a variable, relative/absolute spellings, file paths - is loaded through the real graphFromFlowIR and its nodes, '
         'edges, per-copy references, arguments and replica variable are compared with an independent expander (exhaustive within the bound). '
         'E2: CrossHair searches the textual rewriting (compile_component_replica/aggregate) with a symbolic producer name; bug-hunting strength.',
    note='E1 uses two concrete name families (non-overlapping; Sim/PreSim where one name is the tail of the other); E2 names range over the alphabet the loader accepts in a reference token; the suffix-overlap rewriting defect found by E2 is repaired (0a3e1fc).',
    design='DESIGN.md section 2 C03')

CHECKS['C05'] = dict(
    engine='symx+smt-lemmas',
    technique='SMT (strings+LIA, cvc5/z3) over sort keys lifted from the AST of the real functions + bounded symbolic execution of the real graph over document shapes and iteration count',
    text='E3: for each of the four places that order loop iterations the key expression is lifted from the current source and cvc5 decides '
         'that it is strictly increasing in the iteration number for all 0 <= i < j <= 999 (counterexamples such as (9, 80) are replayed on the '
         'lifted lambda). E1: the real instantiate_dowhile_next_iteration is driven for k = 1..12 on a graph loaded from a scratch package for '
         '16 document shapes; nodes, edges, loop-carried wiring, placeholder metadata, loop state and reference resolution are checked after every step.',
    note='cvc5 1.4 (wheel) decides, cvc5 1.0 (binary) cross-checks, z3 5.1 answers unknown on these string queries; rootStorage stubbed; '
         'document shapes are a finite family.',
    design='DESIGN.md section 2 C05')

CHECKS['C14'] = dict(
    technique='bounded symbolic execution (z3, own executor): crash / I/O-error position among the I/O calls of an update is a solver variable over an in-memory file-system model',
    text='For status.txt, status_details.json, output.txt/output.json, flowir_instance.yaml and manifest.yaml the real update code runs on an '
         'in-memory file system; a crash (with a symbolic durable prefix of unflushed data) or an I/O error is injected at every I/O call, '
         'after 0-2 preceding updates, and the surviving file must equal the complete previous or new version, load with the real loader and '
         'return exactly the values last written (adversarial error descriptions). Exhaustive over fault positions within the model.',
    note='file-system model (durable truncation on open(w), atomic rename, prefix-durable writes) is part of the claim; payload characters come '
         'from a finite adversarial set because the unicode_escape codec is C code.',
    design='DESIGN.md section 2 C14')

CHECKS['C16'] = dict(
    engine='symx+crosshair',
    technique='bounded symbolic execution (z3, own executor) over which single aspect differs between two real workflows + CrossHair on the hash canonicalisation',
    text='Kernel only. E1: for every backend and every one of 13 aspects (6 hash-relevant, 7 irrelevant, incl. names ending in digits) two in-memory workflows differing in '
         'exactly that aspect are loaded and the real memoization_hash / memoization_hash_fuzzy compared (differ iff relevant, producer chain '
         'included); direct file references and chains data file -> producer -> produced file -> consumer with any link missing or differing; replicas of blueprints whose own name ends in digits. E2: CrossHair searches _memoization_info_to_hash (md5 replaced by a recorder) for collisions/instabilities with symbolic strings.',
    note='symbolic file contents (md5 is C code; two concrete contents), JavaScript embedding and CDB lookups are outside; md5 assumed injective; aspects and values are a finite family.',
    design='DESIGN.md section 2 C16')
CHECKS['C18'] = dict(
    technique='bounded symbolic execution (z3, own executor) over the segment structure of archive member names, link targets and manifest keys; file-system writes recorded by a model',
    text='Every archive of 1 (thorough 2) members with names of <=3 segments from {.., ., a, b}, optional leading/trailing slash, all four member '
         'types and link targets, every manifest key of <=3 (4) segments and every copy/link file path is pushed through the real StageReference / '
         'Manifest.validate / expandPackageToDirectory; every write recorded by the file-system model must lie under the target directory. '
         'Exhaustive within the bound.',
    note='tarfile/shutil/os are models (fully-trusted extraction resolving through earlier symlinks; copytree/symlink fail on existing '
         'ancestors): the claim is relative to them; segments are tokens, not symbolic characters.',
    design='DESIGN.md section 2 C18')

CHECKS['C19'] = dict(
    technique='bounded symbolic execution (z3, own executor) over which component options are present (singly and in pairs), backend and values; real flatten -> parse pair',
    text='Component option tables and one disk family: for every backend expressible in the legacy format and each of 44 options (alone and in pairs within a '
         'section) the real Dosini writer helpers flatten the component, the real parse_component + convert_component_types read it back, and '
         'both sides are resolved with FlowIRConcrete and compared. Disk half: FlowIRConcrete.instance -> Dosini.dump(is_instance=True) -> load_from_directory '
         'for 1, 2, 3, 11 or 12 stages with a named environment, stage variables, status weights and one optional option; components, resolved '
         'configurations, variables, environments and status are compared. Exhaustive within those families.',
    note='DOSINIExperimentConfiguration, non-instance packages (variables.conf / platform files) and output sections are not claimed; in the option-table half str() models what configparser stores.',
    design='DESIGN.md section 2 C19')

CHECKS['C13'] = dict(
    technique='bounded symbolic execution (z3, own executor) of the real RepeatingEngine.run / CreateMonitor loop as one history; environment events at every switch point are solver decisions',
    text='The real closures of RepeatingEngine.run are driven by the real monitor loop with threads, clock, timers and tasks replaced by a '
         'deterministic world: at every sleep / task wait the solver chooses whether new producer output appears, the producers-finished '
         'notification arrives, an external kill happens or a due timer fires, and each task\'s duration and outcome. Oracles: no execution before '
         'output, an execution after the last output before stopping, stop within retries+2 attempts but not before a success or exhausted retries, '
         'final exit reason. Path-budgeted (not exhaustive) at 8 (thorough 11) switch points.',
    note='delivery of the notification by ComponentState.stageIn (rx) is assumed exactly-once; fake clock; performance book-keeping stubbed; the option handling of RepeatingEngine.__init__ is lifted from its AST.',
    design='DESIGN.md section 2 C13')

CHECKS['C02'] = dict(
    technique='bounded symbolic execution (z3, own executor) with a cooperative scheduler: the order of logical-thread actions and every exit reason are solver variables; reference outcome from the documented rules',
    text='The real Controller.run loop runs against a cooperative scheduler that owns task exits, post-mortem and finished notifications and '
         'asynchronous kills; at the two blocking calls (event wait, stability wait under the lock) the solver picks which enabled action runs '
         'next and the exit reason of each execution. For 9 small DAGs (plus restart-enabled and one focused, exhaustively explored racing variant) every explored ordering must terminate, leave every '
         'component in one final state, and match the rule-given states computed independently from the DAG and the exit reasons. '
         'Path-budgeted per program (not exhaustive for the larger DAGs).',
    note='the real rx operators of each subscription are applied synchronously, those before the hand-over to controllerPool when the task exits and those after it when the solver lets the pool deliver; preemption is modelled only at the two blocking calls; '
         'Engine.run is a recorder; each notification is delivered exactly once.',
    design='DESIGN.md section 2 C02')

CHECKS['C11'] = dict(
    technique='bounded symbolic execution (z3, own executor) over base-document shape x a single injected fault (kind, position, wrong value); real loader on every path',
    text='Reduced scope: FlowIR packages only. Every base document of the family (replication / platform override / third stage present or not, '
         'both platforms) is written to a scratch package and loaded by the real graphFromPackage (and, in memory, by graphFromFlowIR(primitive=False)) with validation on, unmodified and with one fault '
         'of 10 kinds at every applicable position. Whatever loads must be acyclic, uniquely named, reference only existing components and resolve '
         'every configuration; every faulted document must be rejected with ExperimentInvalidConfigurationError (a 20 s alarm stands for a hang). '
         'Exhaustive within the family.',
    note='each path is one concrete document (the solver enumerates shape/fault/position); DOSINI/CWL/DSL front ends and multi-fault documents are outside.',
    design='DESIGN.md section 2 C11')

CHECKS['C06'] = dict(
    technique='bounded symbolic execution (z3, own executor) over the shape of the DSL namespace (templates per step, parameter sources per call site, reference targets, one structural fault); oracle = independent flattening',
    text='Reduced scope: the shape of the namespace is symbolic, its characters are not. For an entry workflow with three steps, an optional '
         'nested workflow instantiated once or twice (thorough: a third level), every way of supplying each parameter (literal text or the empty string overriding a default, forwarded, default, '
         'sibling / nested / handed-down output reference) and seven kinds of invalid namespace, the real Namespace + namespace_to_flowir run and '
         'the compiled components, their arguments, references and names are compared with an independent flattening; invalid namespaces must '
         'raise DSLInvalidError with locations (a 20 s alarm stands for a hang). Path-budgeted in the quick tier.',
    note='each path is one concrete namespace (the solver enumerates the skeleton); pydantic-core is compiled code and cannot be made symbolic.',
    design='DESIGN.md section 2 C06')

CHECKS['C15'] = dict(
    technique='bounded symbolic execution (z3, own executor) with the iteration order of hash containers, directory listings and input-mapping keys as nondeterministic stubs whose choice is a solver variable; model differences confirmed across real processes with different PYTHONHASHSEED',
    text='Reduced scope. The quantifier over processes is brought inside one execution by shadowing set/frozenset (as named in conf, flowir, dsl, graph, '
         'storage), os.listdir and glob.glob with stubs that return their elements in a decided order. Each path loads one package of a FlowIR family '
         '(replication / platform / 0-3 user variable files in 4 orders) or a DSL namespace twice with the real loader - baseline ascending versus '
         'everything descending, input keys descending, or exactly one of the first 200 (thorough 1400) iteration events reversed, the event index being '
         'symbolic - and compares nodes, edges, resolved configurations, environments and memoization hashes; variable files must be layered in '
         'the order given. A difference counts only after 12 fresh interpreters with different hash seeds reproduce it on the unmodified code.',
    note='set literals/comprehensions and containers built inside networkx, pydantic-core or PyYAML keep this process\'s order (outside the claim); at most one '
         'reversed event unless all are; the stub is more liberal than CPython (ints), hence the cross-process confirmation step.',
    design='DESIGN.md section 2 C15')

CHECKS['C07'] = dict(
    technique='bounded symbolic execution (z3, own executor) over the shape of the package, the number of loop iterations instantiated before the reload and the number of store/load cycles; real loader, real instance writer and real reload on every path',
    text='Reduced scope (first declared not applicable): only the shape is symbolic - FlowIR family (replication, second platform, selected platform, 0-2 user '
         'variable files) and the DoWhile document shapes of C05, 0..2 (thorough 0..11) iterations instantiated with store_flowir_to_disk, 1-2 store/load '
         'cycles, reload with or without rewriting the instance files. The live graph and the graph reloaded with is_instance=True must agree on '
         'components, resolved configurations, data references and DoWhile state; user variables must have taken effect; a further load+store must '
         'leave conf/flowir_instance.yaml unchanged as a description (components compared as a set). Exhaustive within the family.',
    note='PyYAML and the file system are real and nothing below the shape is symbolic (each path is one concrete package); the configuration layer is driven '
         'directly (Experiment / ExperimentInstanceDirectory construction is outside); graph edges that do not follow from references are not compared.',
    design='DESIGN.md section 2 C07')

NOT_APPLICABLE = {
}
NOT_YET = 'check not built yet in this session (planned, see DESIGN.md)'


def main():
    checks = []
    for pid in ALL:
        if pid not in CHECKS:
            continue
        c = CHECKS[pid]
        checks.append({
            'property_id': pid,
            'quick_cmd': './check %s --tier quick' % pid,
            'thorough_cmd': './check %s --tier thorough' % pid,
            'evidence_file': 'evidence/%s.json' % pid,
            'replay_cmd_template': './check %s --replay {path}' % pid,
            'engine': c.get('engine', 'symx'),
            'level_claimed': {'category': 'other', 'text': c['text'], 'design_ref': c['design']},
            'level_note': c['note'],
            'technique': c['technique'],
        })
    na = []
    for pid in ALL:
        if pid in CHECKS:
            continue
        na.append({'property_id': pid, 'reason': NOT_APPLICABLE.get(pid, NOT_YET)})
    m = {
        'version': 1,
        'setup_cmd': './setup.sh',
        'hooks': {
            'guard': 'ST4SD_RUNTIME_CORE_VERIF',
            'enable': 'no source hooks: harnesses subclass/stub from outside; ./check exports ST4SD_RUNTIME_CORE_VERIF=1 for uniformity',
            'baseline_off_cmd': 'cd /repo && /venv/bin/python -m pytest -ra -q -p no:cacheprovider --timeout=900 --continue-on-collection-errors',
            'source_commits': [],
            'add_only': True,
        },
        'engines': [
            {'name': 'symx', 'path': 'symx/', 'serves_properties': sorted(CHECKS),
             'kind_free_text': 'own dynamic symbolic executor on z3-solver (proxy values, DFS over branch decisions, native re-validation)'},
        ],
        'checks': checks,
        'not_applicable': na,
        'notes': 'All checks decide by solver-based bounded symbolic execution of /repo working-tree code; see DESIGN.md.',
    }
    with open(os.path.join(HERE, 'MANIFEST.json'), 'w') as f:
        json.dump(m, f, indent=1)
    print('MANIFEST.json: %d checks, %d not_applicable' % (len(checks), len(na)))


if __name__ == '__main__':
    main()
