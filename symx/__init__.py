from .core import *  # noqa
