"""symx -- a small dynamic symbolic executor on z3 (engine E1 of DESIGN.md).

The code under test is the *real* code of /repo, executed natively.  Values the
property quantifies over are created through a context object:

    ctx.flag(name)            -> real bool,   forks the path on a fresh Bool variable
    ctx.choice(name, options) -> real option, forks on a fresh Int variable (index)
    ctx.int(name, lo, hi)     -> SymInt   (z3 Int term; arithmetic/comparisons stay symbolic,
                                 truth-value coercion of a comparison forks via the solver)
    ctx.sym_bool(name)        -> SymBool
    ctx.concretize(x)         -> forks over every feasible value of a SymInt
    ctx.assume(c) / ctx.check(c, msg) / ctx.witness(name)

The Explorer performs DFS over the decisions, asking z3 (incremental push/pop) for
feasibility of each side.  Every completed path is re-validated natively: a model of
the path condition is turned into plain Python values and the same body is run again
with a ConcreteCtx (no proxies); the observable returned by the body must be equal.
"""
import os
import random
import time
import traceback

import z3

__all__ = ['fp_value_to_float', 'fp_value_to_hex', 'SymBool', 'SymInt', 'Ctx', 'ConcreteCtx', 'Explorer', 'PathAbort', 'Violation',
           'Inconclusive', 'HarnessError', 'PathResult', 'unwrap']


class PathAbort(BaseException):
    """The current path is infeasible under an assumption: drop it silently."""


class Inconclusive(BaseException):
    """Solver returned unknown / a budget ran out on this path."""


class Violation(BaseException):
    def __init__(self, msg, detail=None):
        BaseException.__init__(self, msg)
        self.msg = msg
        self.detail = detail


class HarnessError(Exception):
    pass


def fp_value_to_float(val):
    import struct
    val = z3.simplify(val)
    if val.isNaN():
        return float('nan')
    if val.isInf():
        return float('-inf') if val.isNegative() else float('inf')
    sign = 1 if val.isNegative() else 0
    if val.isZero():
        return -0.0 if sign else 0.0
    e = val.exponent_as_long(True)
    m = val.significand_as_long()
    bits = (sign << 63) | (e << 52) | m
    return struct.unpack('>d', struct.pack('>Q', bits))[0]


def fp_value_to_hex(val):
    f = fp_value_to_float(val)
    if f != f:
        return 'nan'
    if f in (float('inf'), float('-inf')):
        return 'inf' if f > 0 else '-inf'
    return f.hex()


def unwrap(x):
    if isinstance(x, (SymBool, SymInt)):
        return x.term
    return x


class SymBool(object):
    __slots__ = ('ctx', 'term')

    def __init__(self, ctx, term):
        self.ctx = ctx
        self.term = term

    def __bool__(self):
        return self.ctx.branch(self.term)

    def __invert__(self):
        return SymBool(self.ctx, z3.Not(self.term))

    def __and__(self, o):
        return SymBool(self.ctx, z3.And(self.term, _b(o)))

    __rand__ = __and__

    def __or__(self, o):
        return SymBool(self.ctx, z3.Or(self.term, _b(o)))

    __ror__ = __or__

    def implies(self, o):
        return SymBool(self.ctx, z3.Implies(self.term, _b(o)))

    def __eq__(self, o):
        return SymBool(self.ctx, self.term == _b(o))

    def __ne__(self, o):
        return SymBool(self.ctx, self.term != _b(o))

    def __hash__(self):
        raise TypeError('SymBool is unhashable; concretise first')


def _b(o):
    if isinstance(o, SymBool):
        return o.term
    if isinstance(o, bool):
        return z3.BoolVal(o)
    if z3.is_expr(o):
        return o
    raise TypeError('not a boolean: %r' % (o,))


def _i(o):
    if isinstance(o, SymInt):
        return o.term
    if isinstance(o, bool):
        return z3.IntVal(int(o))
    if isinstance(o, int):
        return z3.IntVal(o)
    if z3.is_expr(o):
        return o
    return NotImplemented


class SymInt(object):
    """Python int semantics on a z3 Int term (floor division / modulo as in Python)."""
    __slots__ = ('ctx', 'term')

    def __init__(self, ctx, term):
        self.ctx = ctx
        self.term = term

    def _bin(self, o, f):
        t = _i(o)
        if t is NotImplemented:
            return NotImplemented
        return SymInt(self.ctx, f(self.term, t))

    def _cmp(self, o, f):
        t = _i(o)
        if t is NotImplemented:
            return NotImplemented
        return SymBool(self.ctx, f(self.term, t))

    def __add__(self, o): return self._bin(o, lambda a, b: a + b)
    def __radd__(self, o): return self._bin(o, lambda a, b: b + a)
    def __sub__(self, o): return self._bin(o, lambda a, b: a - b)
    def __rsub__(self, o): return self._bin(o, lambda a, b: b - a)
    def __mul__(self, o): return self._bin(o, lambda a, b: a * b)
    def __rmul__(self, o): return self._bin(o, lambda a, b: b * a)
    def __neg__(self): return SymInt(self.ctx, -self.term)

    def __floordiv__(self, o):
        # python floor division; z3 Int '/' is euclidean: equal for positive divisors
        t = _i(o)
        if t is NotImplemented:
            return NotImplemented
        self.ctx.assume(SymBool(self.ctx, t > 0))
        return SymInt(self.ctx, self.term / t)

    def __mod__(self, o):
        t = _i(o)
        if t is NotImplemented:
            return NotImplemented
        self.ctx.assume(SymBool(self.ctx, t > 0))
        return SymInt(self.ctx, self.term % t)

    def __lt__(self, o): return self._cmp(o, lambda a, b: a < b)
    def __le__(self, o): return self._cmp(o, lambda a, b: a <= b)
    def __gt__(self, o): return self._cmp(o, lambda a, b: a > b)
    def __ge__(self, o): return self._cmp(o, lambda a, b: a >= b)
    def __eq__(self, o): return self._cmp(o, lambda a, b: a == b)
    def __ne__(self, o): return self._cmp(o, lambda a, b: a != b)

    def __bool__(self):
        return self.ctx.branch(self.term != 0)

    # concretising coercions: fork over every feasible value
    def __index__(self): return self.ctx.concretize(self)
    def __int__(self): return self.ctx.concretize(self)
    def __hash__(self): return hash(self.ctx.concretize(self))
    def __str__(self): return str(self.ctx.concretize(self))
    def __repr__(self): return 'SymInt(%s)' % self.term
    def __format__(self, spec): return format(self.ctx.concretize(self), spec)


class PathResult(object):
    __slots__ = ('decisions', 'assignment', 'observable', 'status', 'message', 'witnesses',
                 'obligations', 'discharged', 'forks')


class _CtxBase(object):
    symbolic = False

    def __init__(self):
        self.witnesses = set()
        self.obligations = 0
        self.discharged = 0
        self.notes = []
        self._names = {}

    def _uniq(self, name):
        k = self._names.get(name, 0)
        self._names[name] = k + 1
        return name if k == 0 else '%s#%d' % (name, k)

    def witness(self, name):
        self.witnesses.add(name)

    def note(self, *a):
        self.notes.append(a)


class ConcreteCtx(_CtxBase):
    """Replays one assignment with plain Python values (native re-validation, replay files)."""

    def __init__(self, assignment):
        _CtxBase.__init__(self)
        self.assignment = assignment
        self.missing = []

    def _get(self, name, default):
        name = self._uniq(name)
        if name not in self.assignment:
            self.missing.append(name)
            return default
        return self.assignment[name]

    def flag(self, name):
        return bool(self._get(name, False))

    def sym_bool(self, name):
        return bool(self._get(name, False))

    def choice(self, name, options):
        options = list(options)
        return options[int(self._get(name, 0))]

    def int(self, name, lo, hi):
        v = int(self._get(name, lo))
        if not (lo <= v <= hi):
            raise HarnessError('replayed value out of range %s=%r' % (name, v))
        return v

    def bv(self, name, bits=32):
        return int(self._get(name, 0))

    def fp(self, name):
        v = self._get(name, 0.0)
        if isinstance(v, str):
            v = float.fromhex(v) if v not in ('nan', 'inf', '-inf') else float(v)
        return float(v)

    def concretize(self, x):
        return x

    def branch(self, c):
        return bool(c)

    def assume(self, c):
        if not c:
            raise PathAbort()

    def check(self, c, msg, detail=None):
        self.obligations += 1
        if not c:
            raise Violation(msg, detail)
        self.discharged += 1


class Ctx(_CtxBase):
    symbolic = True

    def __init__(self, explorer):
        _CtxBase.__init__(self)
        self.ex = explorer
        self.vars = {}       # name -> z3 const

    # -- variable creation
    def _var(self, name, mk):
        name = self._uniq(name)
        v = mk(name)
        self.vars[name] = v
        return v

    def sym_bool(self, name):
        return SymBool(self, self._var(name, z3.Bool))

    def flag(self, name):
        v = self._var(name, z3.Bool)
        return self.ex.decide_bool(v, fresh=True)

    def choice(self, name, options):
        options = list(options)
        v = self._var(name, z3.Int)
        if len(options) == 1:
            self.ex.add(v == 0)
            return options[0]
        idx = self.ex.decide_fresh_int(v, len(options))
        return options[idx]

    def int(self, name, lo, hi):
        v = self._var(name, z3.Int)
        self.ex.add(z3.And(v >= lo, v <= hi))
        return SymInt(self, v)

    def fp(self, name):
        return self._var(name, lambda n: z3.FP(n, z3.Float64()))

    def bv(self, name, bits=32):
        return self._var(name, lambda n: z3.BitVec(n, bits))

    # -- solver interaction
    def branch(self, term):
        if isinstance(term, bool):
            return term
        return self.ex.decide_bool(term, fresh=False)

    def concretize(self, x):
        if isinstance(x, SymInt):
            return self.ex.decide_value(x.term)
        if isinstance(x, SymBool):
            return self.ex.decide_bool(x.term, fresh=False)
        return x

    def assume(self, c):
        if isinstance(c, SymBool):
            c = c.term
        if isinstance(c, bool):
            if not c:
                raise PathAbort()
            return
        self.ex.add(c)
        if not self.ex.feasible():
            raise PathAbort()

    def check(self, c, msg, detail=None):
        self.obligations += 1
        if isinstance(c, SymBool):
            c = c.term
        if isinstance(c, bool):
            if not c:
                raise Violation(msg, detail)
            self.discharged += 1
            return
        # an assertion is a branch: the violating side (if feasible) ends the path with a Violation,
        # the exploration continues on the side where the assertion holds
        ok = self.ex.decide_bool(c, fresh=False, expect=True)
        if not ok:
            raise Violation(msg, detail)
        self.discharged += 1


class Explorer(object):
    """DFS over branch decisions of `body(ctx)`; see module docstring."""

    def __init__(self, body, prefix=(), seed=0, query_timeout_ms=20000, validate=True,
                 concretize_limit=64, backend='z3'):
        self.backend = backend    # 'z3' | 'cvc5' (queries dumped as SMT-LIB2 and decided by the cvc5 wheel)
        self.query_timeout_ms = query_timeout_ms
        self.cvc5_values = None
        self.body = body
        self.prefix = list(prefix)
        self.validate = validate
        self.solver = z3.Solver()
        self.solver.set('timeout', query_timeout_ms)
        self.rng = random.Random(seed)
        self.seed = seed
        self.queries = 0
        self.solver_s = 0.0
        self.concretize_limit = concretize_limit
        # per path
        self.script = None
        self.trace = None
        self.pos = 0

    # ---- low-level solver helpers
    def add(self, c):
        self.solver.add(c)

    def check_sat(self, *assumptions, **kw):
        t = time.time()
        if self.backend == 'cvc5':
            from . import cvc5_backend
            s2 = z3.Solver()
            s2.add(self.solver.assertions())
            s2.add(*assumptions)
            r, vals = cvc5_backend.solve(s2.to_smt2(), self.query_timeout_ms, kw.get('value_names', ()))
            self.cvc5_values = vals
        else:
            r = str(self.solver.check(*assumptions))
        self.solver_s += time.time() - t
        self.queries += 1
        return r

    def feasible(self):
        r = self.check_sat()
        if r == 'unknown':
            raise Inconclusive('solver unknown on assume')
        return r == 'sat'

    # ---- decisions
    def _scripted(self):
        if self.pos < len(self.script):
            ent = self.script[self.pos]
            self.trace.append(ent)
            self.pos += 1
            return ent[0]
        return None

    def _record(self, alts):
        # alts: list of feasible alternatives (values); take first, remember the rest
        if self.seed and len(alts) > 1:
            self.rng.shuffle(alts)
        ent = [alts[0], alts[1:], len(alts) > 1]
        self.trace.append(ent)
        self.pos += 1
        return alts[0]

    def decide_bool(self, term, fresh, expect=None):
        v = self._scripted()
        if v is None:
            if fresh:
                alts = [True, False]
            elif expect is True:
                # assertion: ask for a counterexample first; none => the path condition (sat) implies term
                r2 = self.check_sat(z3.Not(term))
                if r2 == 'unknown':
                    raise Inconclusive('solver unknown on assertion')
                if r2 == 'unsat':
                    alts = [True]
                else:
                    r1 = self.check_sat(term)
                    if r1 == 'unknown':
                        raise Inconclusive('solver unknown on assertion')
                    alts = [True, False] if r1 == 'sat' else [False]
            else:
                alts = []
                r1 = self.check_sat(term)
                if r1 == 'unknown':
                    raise Inconclusive('solver unknown on branch')
                if r1 == 'sat':
                    alts.append(True)
                    r2 = self.check_sat(z3.Not(term))
                    if r2 == 'unknown':
                        raise Inconclusive('solver unknown on branch')
                    if r2 == 'sat':
                        alts.append(False)
                else:
                    alts.append(False)   # path condition is sat (invariant) so the other side is
            v = self._record(alts)
        self.solver.add(term if v else z3.Not(term))
        return v

    def decide_fresh_int(self, var, n):
        v = self._scripted()
        if v is None:
            v = self._record(list(range(n)))
        self.solver.add(var == v)
        return v

    def decide_value(self, term):
        v = self._scripted()
        if v is None:
            vals = []
            self.solver.push()
            try:
                while True:
                    r = self.check_sat()
                    if r == 'unknown':
                        raise Inconclusive('solver unknown on concretize')
                    if r != 'sat':
                        break
                    m = self.solver.model()
                    val = m.eval(term, model_completion=True)
                    vals.append(val.as_long() if z3.is_int_value(val) else val)
                    self.solver.add(term != val)
                    if len(vals) > self.concretize_limit:
                        raise Inconclusive('concretize limit exceeded')
            finally:
                self.solver.pop()
            if not vals:
                raise PathAbort()
            v = self._record(sorted(vals))
        self.solver.add(term == v)
        return v

    # ---- one path
    def _assignment(self, ctx):
        if self.backend == 'cvc5':
            r = self.check_sat(value_names=list(ctx.vars))
            if r != 'sat':
                raise Inconclusive('no model at end of path (%s)' % r)
            out = {}
            for name, v in ctx.vars.items():
                val = self.cvc5_values.get(name)
                if val is None:
                    val = False if z3.is_bool(v) else (0.0).hex() if z3.is_fp(v) else 0
                out[name] = val
            return out
        r = self.check_sat()
        if r != 'sat':
            raise Inconclusive('no model at end of path (%s)' % r)
        m = self.solver.model()
        out = {}
        for name, v in ctx.vars.items():
            val = m.eval(v, model_completion=True)
            if z3.is_bool(val):
                out[name] = z3.is_true(val)
            elif z3.is_int_value(val):
                out[name] = val.as_long()
            elif z3.is_fp(val):
                out[name] = fp_value_to_hex(val)
            elif z3.is_bv_value(val):
                out[name] = val.as_signed_long()
            elif z3.is_rational_value(val):
                out[name] = [val.numerator_as_long(), val.denominator_as_long()]
            else:
                out[name] = str(val)
        return out

    def run_path(self, script):
        self.script = script
        self.trace = []
        self.pos = 0
        ctx = Ctx(self)
        res = PathResult()
        res.status = 'ok'
        res.message = None
        res.observable = None
        res.assignment = None
        self.solver.push()
        try:
            try:
                res.observable = self.body(ctx)
            except PathAbort:
                res.status = 'infeasible'
            except Inconclusive as e:
                res.status = 'inconclusive'
                res.message = str(e)
            except Violation as e:
                res.status = 'violation'
                res.message = e.msg
                res.observable = e.detail
            except Exception:
                res.status = 'harness_error'
                res.message = traceback.format_exc()
            if res.status in ('ok', 'violation'):
                try:
                    res.assignment = self._assignment(ctx)
                except Inconclusive as e:
                    res.status = 'inconclusive'
                    res.message = str(e)
        finally:
            self.solver.pop()
        res.decisions = [e[0] for e in self.trace]
        res.forks = sum(1 for e in self.trace if e[2])
        res.witnesses = ctx.witnesses
        res.obligations = ctx.obligations
        res.discharged = ctx.discharged
        if self.validate and res.status in ('ok', 'violation'):
            self._revalidate(res)
        return res

    def _revalidate(self, res):
        cctx = ConcreteCtx(res.assignment)
        try:
            obs = self.body(cctx)
            st = 'ok'
            msg = None
        except Violation as e:
            st, obs, msg = 'violation', e.detail, e.msg
        except PathAbort:
            st, obs, msg = 'infeasible', None, None
        except Exception:
            st, obs, msg = 'harness_error', None, traceback.format_exc()
        if st != res.status or (st == 'ok' and obs != res.observable) or \
                (st == 'violation' and msg != res.message):
            if res.status == 'violation' and st == 'ok':
                # counterexample does not reproduce natively
                res.status = 'harness_error'
                res.message = 'symbolic violation %r did not reproduce natively' % (res.message,)
            else:
                res.message = ('native re-validation mismatch: symbolic %s/%r vs native %s/%r (%s)'
                               % (res.status, res.observable, st, obs, msg))
                res.status = 'harness_error'

    # ---- DFS
    def explore(self, max_paths=None, on_path=None):
        """Explore the subtree under self.prefix.  Returns (n_paths, frontier) where frontier
        is the list of unexplored decision prefixes (empty when the subtree is exhausted)."""
        base = len(self.prefix)
        script = [[c, [], True] for c in self.prefix]
        n = 0
        while True:
            res = self.run_path(script)
            n += 1
            if on_path is not None:
                on_path(res)
            trace = self.trace
            # backtrack
            i = len(trace) - 1
            while i >= base and not trace[i][1]:
                i -= 1
            if i < base:
                return n, []
            if max_paths is not None and n >= max_paths:
                frontier = []
                for j in range(base, len(trace)):
                    for alt in trace[j][1]:
                        frontier.append([e[0] for e in trace[:j]] + [alt])
                return n, frontier
            rem = trace[i][1]
            nxt = rem[0]
            script = [[e[0], e[1], e[2]] for e in trace[:i]] + [[nxt, rem[1:], True]]
