"""Engine E2: CrossHair (symbolic execution of Python with z3, characters of short strings symbolic).

One `crosshair check` process per contract function, in parallel.  CrossHair's verdicts are treated as
follows (DESIGN.md section 1.2): a counterexample is only reported after the same contract function,
called natively on the reported arguments, also fails; "Confirmed over all paths" counts as a discharged
obligation within the stated string-length bound; "Not confirmed"/timeouts are inconclusive.
"""
import ast
import concurrent.futures as cf
import importlib
import os
import re
import subprocess
import sys
import time

VERIF = os.path.dirname(os.path.dirname(os.path.abspath(__file__)))
PY = os.path.join(VERIF, '.venv', 'bin', 'python')


def _lines(path):
    with open(path) as f:
        tree = ast.parse(f.read())
    return {n.name: n.lineno + 1 for n in tree.body if isinstance(n, ast.FunctionDef)}


def _run_one(args):
    path, name, line, timeout = args
    env = dict(os.environ)
    env['PYTHONPATH'] = VERIF + os.pathsep + env.get('PYTHONPATH', '')
    env['PYTHONWARNINGS'] = 'ignore'
    # CrossHair's default per-path budget grows with the square root of the condition budget; the replication code needs
    # ~15 s for ONE path over a symbolic name, which made two contracts vacuous ("Unable to meet precondition")
    cmd = [PY, '-m', 'crosshair', 'check', '--report_all', '--per_condition_timeout', str(timeout),
           '--per_path_timeout', str(max(10, timeout // 2)), '%s:%d' % (path, line)]
    t0 = time.time()
    try:
        r = subprocess.run(cmd, capture_output=True, text=True, env=env, timeout=timeout * 2 + 60, cwd=VERIF)
        out = r.stdout + r.stderr
    except subprocess.TimeoutExpired as e:
        out = 'TIMEOUT'
    return name, out, time.time() - t0


def _write_twins(modname, path, todo):
    """Reachability twins (vacuity guard): for every contract a function with the same signature, preconditions and
    `raises:` lines that calls the contract and returns True under `post: not _`.  CrossHair must REFUTE each twin, i.e.
    exhibit symbolic arguments for which the contract runs to completion under the engine; when it cannot (every path ends
    in an unsupported operation such as a C function rejecting a symbolic string) the contract says nothing under E2."""
    import tempfile
    with open(path) as f:
        tree = ast.parse(f.read())
    out = ['import %s as _m' % modname,
           '# every name of the contracts module (also the underscore-prefixed helpers used in preconditions)',
           "globals().update({k: v for k, v in vars(_m).items() if not k.startswith('__')})", '']
    for n in tree.body:
        if isinstance(n, ast.FunctionDef) and n.name in todo:
            doc = ast.get_docstring(n) or ''
            keep = [l.strip() for l in doc.splitlines() if l.strip().startswith(('pre:', 'raises:'))]
            argnames = [a.arg for a in n.args.args]
            out.append('def _twin%s(%s) -> bool:' % (n.name, ast.unparse(n.args)))
            out.append('    """')
            out.extend('    ' + l for l in keep)
            out.append('    post: not _')
            out.append('    """')
            out.append('    _m.%s(%s)' % (n.name, ', '.join(argnames)))
            out.append('    return True')
            out.append('')
    d = tempfile.mkdtemp(prefix='verif-xh-twins-')
    tp = os.path.join(d, 'twins_%s.py' % modname.replace('.', '_'))
    with open(tp, 'w') as f:
        f.write('\n'.join(out))
    return d, tp


def run_contracts(modname, names=None, timeout=30, nproc=16):
    """Returns list of dicts: name, verdict in {confirmed, not_confirmed, counterexample, error, unknown},
    message, call (for counterexamples), wall_s."""
    mod = importlib.import_module(modname)
    path = mod.__file__
    lines = _lines(path)
    todo = [n for n in (names or sorted(lines)) if n.startswith('_c') and n in lines and not n.endswith('_pre')]
    jobs = [(path, n, lines[n], timeout) for n in todo]
    twin_dir, twin_path = _write_twins(modname, path, todo)
    tlines = _lines(twin_path)
    # a twin stops as soon as one path completes (seconds, normally); it gets twice the condition's budget so that a slow or
    # loaded machine does not turn a merely slow condition into a vacuity report
    jobs += [(twin_path, '_twin' + n, tlines['_twin' + n], timeout * 2) for n in todo]
    results = []
    twins = {}
    with cf.ThreadPoolExecutor(max_workers=nproc) as pool:
        for name, out, dt in pool.map(_run_one, jobs):
            if name.startswith('_twin'):
                twins[name[5:]] = (bool(re.search(r'error: false when calling', out)), round(dt, 1), out[-300:])
                continue
            res = {'name': name, 'wall_s': round(dt, 1), 'raw': out[-1500:]}
            m = re.search(r'error: (.*?) when calling (.*?)(?: \(which returns (.*)\))?$', out, re.M)
            if 'Confirmed over all paths' in out:
                res['verdict'] = 'confirmed'
            elif m:
                res['verdict'] = 'counterexample'
                res['message'] = m.group(1)
                res['call'] = re.sub(r'\s+with crosshair\.patch_to_return\(.*$', '', m.group(2))
            elif 'Not confirmed' in out or 'Unable to meet precondition' in out or out == 'TIMEOUT':
                res['verdict'] = 'not_confirmed'
                res['message'] = 'Unable to meet precondition' if 'Unable to meet' in out else (
                    'TIMEOUT' if out == 'TIMEOUT' else 'Not confirmed')
            elif 'error:' in out:
                res['verdict'] = 'error'
                res['message'] = out.strip().splitlines()[-1][:500]
            else:
                res['verdict'] = 'unknown'
                res['message'] = out.strip()[-500:]
            results.append(res)
    import shutil
    shutil.rmtree(twin_dir, ignore_errors=True)
    for res in results:
        res['twin'] = twins.get(res['name'], (False, 0.0, 'twin not run'))
    return mod, results


def replay_call(mod, call):
    """Evaluate the reported call natively; returns (reproduced: bool, outcome repr)."""
    try:
        v = eval(call, dict(mod.__dict__))
    except Exception as e:
        ok_exc = getattr(mod, 'ALLOWED_EXCEPTIONS', ())
        if isinstance(e, ok_exc):
            return False, 'raises %s (allowed)' % type(e).__name__
        return True, 'raises %s: %s' % (type(e).__name__, e)
    return (not v), repr(v)


def run_e2(rep, modname, timeout, names=None, sweep=None, key=None):
    """Drive the contracts of `modname`, fold the outcome into the Report `rep`."""
    mod, results = run_contracts(modname, names=names, timeout=timeout)
    es = rep.engine_stats
    es.setdefault('conditions', [])
    for r in results:
        es['evaluations'] = es.get('evaluations', 0) + 1
        es['obligations'] = es.get('obligations', 0) + 1
        es['distinct_nontrivial'] = es.get('distinct_nontrivial', 0) + 1
        es['solver_s'] = es.get('solver_s', 0.0) + r['wall_s']
        rec = {'condition': r['name'], 'verdict': r['verdict'], 'wall_s': r['wall_s']}
        if r['verdict'] == 'confirmed':
            es['discharged'] = es.get('discharged', 0) + 1
        elif r['verdict'] == 'counterexample':
            rec['call'] = r['call']
            reproduced, outcome = replay_call(mod, r['call'])
            rec['replayed'] = reproduced
            rec['outcome'] = outcome
            if reproduced:
                k = key(r['name'], r['call']) if key else r['name']
                rep.extra_violations.append({'key': k, 'message': '%s: %s' % (r['name'], r.get('message')),
                                             'call': r['call'], 'outcome': outcome, 'section': 'crosshair',
                                             'condition': r['name']})
            else:
                es.setdefault('inconclusive', []).append({'condition': r['name'],
                                                          'note': 'counterexample %s did not reproduce natively' % r['call']})
                es['exhaustive'] = False
        elif r['verdict'] in ('not_confirmed', 'unknown'):
            es.setdefault('inconclusive', []).append({'condition': r['name'], 'note': r.get('message')})
            es['exhaustive'] = False
        else:
            rep.harness_errors.append({'message': 'crosshair error in %s: %s' % (r['name'], r.get('message')),
                                       'section': 'crosshair'})
        reached, twin_s, twin_raw = r.get('twin', (True, 0.0, ''))
        rec['engine_completes_a_symbolic_path'] = reached
        es['solver_s'] = es.get('solver_s', 0.0) + twin_s
        if not reached and r['verdict'] not in ('counterexample', 'confirmed'):
            rep.harness_errors.append({'message': 'vacuity: CrossHair completes no symbolic path of %s (reachability twin not refuted: %s)'
                                                  % (r['name'], twin_raw.strip().splitlines()[-1][:200] if twin_raw.strip() else ''),
                                       'section': 'crosshair'})
        es['conditions'].append(rec)
        rep.notes.append('crosshair %-44s %-14s %5.1fs %s' % (r['name'], r['verdict'], r['wall_s'],
                                                              r.get('call', r.get('message', '')) or ''))
    # native sweep over a small alphabet: a net under the engine, and the vacuity witness of each contract
    if sweep:
        n_calls = 0
        n_failed = 0
        n_true = {}
        for fname, argsets in sweep(mod):
            if names and fname not in names:
                continue
            f = getattr(mod, fname)
            pre = getattr(mod, fname + '_pre', None)
            for a in argsets:
                if pre is not None and not pre(*a):
                    continue
                n_calls += 1
                try:
                    ok = f(*a)
                except Exception as e:
                    if isinstance(e, getattr(mod, 'ALLOWED_EXCEPTIONS', ())):
                        continue
                    ok = False
                n_true[fname] = n_true.get(fname, 0) + 1
                if not ok:
                    n_failed += 1
                    call = '%s(%s)' % (fname, ', '.join(repr(x) for x in a))
                    k = key(fname, call) if key else fname
                    rep.extra_violations.append({'key': k, 'message': '%s (native sweep)' % fname, 'call': call,
                                                 'section': 'native-sweep', 'condition': fname})
        es['native_sweep_calls'] = n_calls
        es['native_sweep_failed'] = n_failed
        es['validated'] = es.get('validated', 0) + n_calls
        # the sweep is deterministic work of this run: one obligation per (contract, argument tuple) evaluated on the real code
        es['evaluations'] = es.get('evaluations', 0) + n_calls
        es['distinct_nontrivial'] = es.get('distinct_nontrivial', 0) + n_calls
        es['obligations'] = es.get('obligations', 0) + n_calls
        es['discharged'] = es.get('discharged', 0) + (n_calls - n_failed)
        for fname, _ in sweep(mod):
            if (not names or fname in names) and not n_true.get(fname):
                rep.harness_errors.append({'message': 'vacuity: precondition of %s never satisfied in the native sweep' % fname})
    return results
