"""cvc5 (python wheel 1.4) as an alternative decision procedure for queries built with the z3 API:
the assertions are dumped as SMT-LIB2 and parsed by cvc5's own parser."""
import re
import struct

try:
    import cvc5
    HAVE = True
except Exception:   # pragma: no cover
    cvc5 = None
    HAVE = False


def _parse_value(txt):
    txt = txt.strip()
    if txt in ('true', 'false'):
        return txt == 'true'
    m = re.match(r'^\(fp\s+#b([01])\s+#b([01]+)\s+#b([01]+)\)$', txt)
    if m:
        s, e, f = m.groups()
        if len(e) == 11 and len(f) == 52:
            bits = int(s + e + f, 2)
            v = struct.unpack('>d', struct.pack('>Q', bits))[0]
            if v != v:
                return 'nan'
            if v in (float('inf'), float('-inf')):
                return 'inf' if v > 0 else '-inf'
            return v.hex()
        return txt
    m = re.match(r'^\(_\s+(NaN|\+oo|-oo|\+zero|-zero)\s+\d+\s+\d+\)$', txt)
    if m:
        return {'NaN': 'nan', '+oo': 'inf', '-oo': '-inf', '+zero': (0.0).hex(), '-zero': (-0.0).hex()}[m.group(1)]
    m = re.match(r'^#b([01]+)$', txt)
    if m:
        n = len(m.group(1))
        v = int(m.group(1), 2)
        return v - (1 << n) if v >= (1 << (n - 1)) else v
    m = re.match(r'^#x([0-9a-fA-F]+)$', txt)
    if m:
        n = 4 * len(m.group(1))
        v = int(m.group(1), 16)
        return v - (1 << n) if v >= (1 << (n - 1)) else v
    m = re.match(r'^\(-\s+(\d+)\)$', txt)
    if m:
        return -int(m.group(1))
    if re.match(r'^\d+$', txt):
        return int(txt)
    return txt


def solve(smt2, timeout_ms, value_names=()):
    """Returns (result, values) with result in sat/unsat/unknown."""
    if not HAVE:
        return 'unknown', {}
    tm = cvc5.TermManager()
    slv = cvc5.Solver(tm)
    slv.setOption('produce-models', 'true')
    slv.setOption('tlimit-per', str(int(timeout_ms)))
    sm = cvc5.SymbolManager(tm)
    parser = cvc5.InputParser(slv, sm)
    text = '(set-logic ALL)\n' + smt2
    # z3 emits (check-sat) at the end of to_smt2(); values are asked afterwards
    parser.setStringInput(cvc5.InputLanguage.SMT_LIB_2_6, text, 'query')
    res = 'unknown'
    try:
        while True:
            cmd = parser.nextCommand()
            if cmd.isNull():
                break
            out = cmd.invoke(slv, sm)
            o = str(out).strip()
            if o in ('sat', 'unsat', 'unknown'):
                res = o
            elif o.startswith('(error'):
                return 'unknown', {}
    except Exception:
        return 'unknown', {}
    values = {}
    if res == 'sat' and value_names:
        for name in value_names:
            q = name if re.match(r'^[A-Za-z_][A-Za-z0-9_]*$', name) else '|%s|' % name
            p2 = cvc5.InputParser(slv, sm)
            p2.setStringInput(cvc5.InputLanguage.SMT_LIB_2_6, '(get-value (%s))' % q, 'gv')
            try:
                cmd = p2.nextCommand()
                out = str(cmd.invoke(slv, sm)).strip()
            except Exception:
                continue
            # out looks like ((name value))
            inner = out[2:-2].strip()
            if inner.startswith('|'):
                val = inner[inner.index('|', 1) + 1:].strip()
            else:
                val = inner.split(None, 1)[1] if ' ' in inner else ''
            values[name] = _parse_value(val)
    return res, values
