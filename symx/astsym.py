"""Symbolic interpreter for a small subset of Python statements, taken from the *AST of the real
function* (engine E3 of DESIGN.md).  Values are ordinary Python objects or z3 terms (Float64 for
floats, signed BitVec(64) for ints derived from floats, Bool).  Control flow on a symbolic condition
asks the symx context (ctx.branch), so the symx Explorer enumerates the paths, checks feasibility with
z3 and re-validates each path natively (in the native run no z3 term exists and the same interpreter
computes with Python floats, where the result is additionally compared with the real function).
"""
import ast
import operator

import z3

RNE = z3.RNE()
RTZ = z3.RTZ()
F64 = z3.Float64()
BVW = 64


class Unsupported(Exception):
    pass


class SymRaise(Exception):
    """The interpreted code raises `name` on this path."""
    def __init__(self, name):
        Exception.__init__(self, name)
        self.name = name


def is_sym(x):
    return z3.is_expr(x)


def is_fp(x):
    return z3.is_expr(x) and z3.is_fp(x)


def is_bv(x):
    return z3.is_expr(x) and z3.is_bv(x)


def to_fp(x):
    if is_fp(x):
        return x
    if is_bv(x):
        return z3.fpSignedToFP(RNE, x, F64)
    if isinstance(x, bool):
        x = int(x)
    if isinstance(x, (int, float)):
        return z3.FPVal(float(x), F64)
    raise Unsupported('to_fp(%r)' % (x,))


def to_bv(x):
    if is_bv(x):
        return x
    if isinstance(x, bool):
        x = int(x)
    if isinstance(x, int):
        if abs(x) >= 2 ** (BVW - 2):
            raise Unsupported('int too large for the bit-vector width')
        return z3.BitVecVal(x, BVW)
    raise Unsupported('to_bv(%r)' % (x,))


def intlike(x):
    return is_bv(x) or (isinstance(x, int) and not isinstance(x, bool)) or isinstance(x, bool)


_PYOP = {ast.Add: operator.add, ast.Sub: operator.sub, ast.Mult: operator.mul, ast.Div: operator.truediv,
         ast.FloorDiv: operator.floordiv, ast.Mod: operator.mod}


def binop(op, a, b):
    if not is_sym(a) and not is_sym(b):
        return _PYOP[type(op)](a, b)
    if intlike(a) and intlike(b) and isinstance(op, (ast.Add, ast.Sub, ast.Mult)):
        x, y = to_bv(a), to_bv(b)
        return {ast.Add: x + y, ast.Sub: x - y, ast.Mult: x * y}[type(op)]
    if isinstance(a, (list, str)) or isinstance(b, (list, str)):
        raise Unsupported('sequence operator with a symbolic operand')
    x, y = to_fp(a), to_fp(b)
    if isinstance(op, ast.Add):
        return z3.fpAdd(RNE, x, y)
    if isinstance(op, ast.Sub):
        return z3.fpSub(RNE, x, y)
    if isinstance(op, ast.Mult):
        return z3.fpMul(RNE, x, y)
    if isinstance(op, ast.Div):
        return z3.fpDiv(RNE, x, y)
    raise Unsupported('operator %s on symbolic values' % type(op).__name__)


def compare(op, a, b):
    if not is_sym(a) and not is_sym(b):
        return {ast.Eq: operator.eq, ast.NotEq: operator.ne, ast.Lt: operator.lt, ast.LtE: operator.le,
                ast.Gt: operator.gt, ast.GtE: operator.ge, ast.In: lambda x, y: x in y,
                ast.NotIn: lambda x, y: x not in y, ast.Is: operator.is_, ast.IsNot: operator.is_not}[type(op)](a, b)
    if isinstance(op, (ast.In, ast.NotIn, ast.Is, ast.IsNot)):
        raise Unsupported('membership/identity on a symbolic value')
    if intlike(a) and intlike(b):
        x, y = to_bv(a), to_bv(b)
        return {ast.Eq: x == y, ast.NotEq: x != y, ast.Lt: x < y, ast.LtE: x <= y, ast.Gt: x > y,
                ast.GtE: x >= y}[type(op)]
    x, y = to_fp(a), to_fp(b)
    return {ast.Eq: z3.fpEQ(x, y), ast.NotEq: z3.Not(z3.fpEQ(x, y)), ast.Lt: z3.fpLT(x, y),
            ast.LtE: z3.fpLEQ(x, y), ast.Gt: z3.fpGT(x, y), ast.GtE: z3.fpGEQ(x, y)}[type(op)]


class Interp(object):
    def __init__(self, ctx, env, skip_attrs=('log', 'debug', 'info', 'warning', 'critical', 'error')):
        self.ctx = ctx
        self.env = env
        self.skip_attrs = skip_attrs
        self.int_bound = 2.0 ** 62

    # ---------------------------------------------------------------- statements
    def run(self, stmts):
        for s in stmts:
            self.stmt(s)

    def truth(self, v):
        if is_sym(v):
            if z3.is_bool(v):
                return self.ctx.branch(v)
            raise Unsupported('truth value of a non-boolean term')
        return bool(v)

    def stmt(self, s):
        if isinstance(s, ast.Assign):
            v = self.expr(s.value)
            for t in s.targets:
                self.assign(t, v)
        elif isinstance(s, ast.AugAssign):
            cur = self.expr(s.target)
            self.assign(s.target, binop(s.op, cur, self.expr(s.value)))
        elif isinstance(s, ast.Expr):
            v = s.value
            if isinstance(v, ast.Call) and isinstance(v.func, ast.Attribute) and v.func.attr in self.skip_attrs:
                return   # logging: not executed (formatting is not the subject)
            if isinstance(v, ast.Constant):
                return
            self.expr(v)
        elif isinstance(s, ast.If):
            if self.truth(self.expr(s.test)):
                self.run(s.body)
            else:
                self.run(s.orelse)
        elif isinstance(s, ast.For):
            it = self.expr(s.iter)
            if is_sym(it):
                raise Unsupported('iteration over a symbolic value')
            for x in list(it):
                self.assign(s.target, x)
                self.run(s.body)
            self.run(s.orelse)
        elif isinstance(s, ast.Try):
            try:
                try:
                    self.run(s.body)
                except Unsupported:
                    raise
                except SymRaise as e:
                    if not self.handle(s, [e.name, 'Exception', 'BaseException']):
                        raise
                except Exception as e:
                    names = [c.__name__ for c in type(e).__mro__]
                    if not self.handle(s, names):
                        raise
                else:
                    self.run(s.orelse)
            finally:
                self.run(s.finalbody)
        elif isinstance(s, ast.Pass):
            pass
        else:
            raise Unsupported('statement %s' % type(s).__name__)

    def handle(self, s, names):
        for h in s.handlers:
            if h.type is None:
                ok = True
            else:
                hts = h.type.elts if isinstance(h.type, ast.Tuple) else [h.type]
                ok = any(isinstance(t, ast.Name) and t.id in names for t in hts)
            if ok:
                self.run(h.body)
                return True
        return False

    def assign(self, t, v):
        if isinstance(t, ast.Name):
            self.env[t.id] = v
        elif isinstance(t, ast.Subscript):
            c = self.expr(t.value)
            k = self.expr(t.slice)
            if is_sym(c) or is_sym(k):
                raise Unsupported('symbolic container/index')
            c[k] = v
        elif isinstance(t, ast.Attribute):
            setattr(self.expr(t.value), t.attr, v)
        elif isinstance(t, (ast.Tuple, ast.List)):
            vs = list(v)
            for tt, vv in zip(t.elts, vs):
                self.assign(tt, vv)
        else:
            raise Unsupported('assignment target %s' % type(t).__name__)

    # ---------------------------------------------------------------- expressions
    def expr(self, e):
        if isinstance(e, ast.Constant):
            return e.value
        if isinstance(e, ast.Name):
            if e.id in self.env:
                return self.env[e.id]
            if e.id in _BUILTINS:
                return _BUILTINS[e.id]
            if e.id in ('math', 'operator'):
                return __import__(e.id)
            raise Unsupported('unknown name %s' % e.id)
        if isinstance(e, ast.Attribute):
            return getattr(self.expr(e.value), e.attr)
        if isinstance(e, ast.Subscript):
            c = self.expr(e.value)
            k = self.expr(e.slice)
            if is_sym(c) or is_sym(k):
                raise Unsupported('symbolic container/index')
            return c[k]
        if isinstance(e, ast.BinOp):
            return binop(e.op, self.expr(e.left), self.expr(e.right))
        if isinstance(e, ast.UnaryOp):
            v = self.expr(e.operand)
            if isinstance(e.op, ast.Not):
                return z3.Not(v) if is_sym(v) else (not v)
            if isinstance(e.op, ast.USub):
                if is_fp(v):
                    return z3.fpNeg(v)
                return -v
            raise Unsupported('unary operator')
        if isinstance(e, ast.Compare):
            left = self.expr(e.left)
            res = None
            for op, c in zip(e.ops, e.comparators):
                right = self.expr(c)
                r = compare(op, left, right)
                res = r if res is None else self.and_(res, r)
                left = right
            return res
        if isinstance(e, ast.BoolOp):
            vals = [self.expr(v) for v in e.values]   # the supported sub-language has no side effects here
            if not any(is_sym(v) for v in vals):
                out = vals[0]
                for v in vals[1:]:
                    out = (out and v) if isinstance(e.op, ast.And) else (out or v)
                return out
            ts = [v if is_sym(v) else z3.BoolVal(bool(v)) for v in vals]
            return z3.And(*ts) if isinstance(e.op, ast.And) else z3.Or(*ts)
        if isinstance(e, ast.IfExp):
            return self.expr(e.body) if self.truth(self.expr(e.test)) else self.expr(e.orelse)
        if isinstance(e, (ast.List, ast.Tuple)):
            vs = [self.expr(x) for x in e.elts]
            return vs if isinstance(e, ast.List) else tuple(vs)
        if isinstance(e, ast.Dict):
            return {self.expr(k): self.expr(v) for k, v in zip(e.keys, e.values)}
        if isinstance(e, ast.ListComp):
            if len(e.generators) != 1:
                raise Unsupported('nested comprehension')
            g = e.generators[0]
            out = []
            for x in list(self.expr(g.iter)):
                self.assign(g.target, x)
                if all(self.truth(self.expr(c)) for c in g.ifs):
                    out.append(self.expr(e.elt))
            return out
        if isinstance(e, ast.Call):
            return self.call(e)
        raise Unsupported('expression %s' % type(e).__name__)

    def and_(self, a, b):
        if not is_sym(a) and not is_sym(b):
            return a and b
        return z3.And(a if is_sym(a) else z3.BoolVal(bool(a)), b if is_sym(b) else z3.BoolVal(bool(b)))

    # ---------------------------------------------------------------- calls
    def call(self, e):
        if e.keywords:
            raise Unsupported('keyword arguments')
        # method calls on concrete containers
        if isinstance(e.func, ast.Attribute):
            obj = self.expr(e.func.value)
            args = [self.expr(a) for a in e.args]
            if isinstance(obj, list) and e.func.attr == 'append':
                obj.append(args[0])
                return None
            if isinstance(obj, dict) and e.func.attr in ('get', 'keys', 'values', 'items'):
                return getattr(obj, e.func.attr)(*args)
            if getattr(obj, '__name__', None) == 'operator' and e.func.attr == 'add':
                return binop(ast.Add(), args[0], args[1])
            if getattr(obj, '__name__', None) == 'math' and e.func.attr in ('isfinite', 'isnan', 'isinf'):
                v = args[0]
                if not is_sym(v):
                    return getattr(obj, e.func.attr)(v)
                v = to_fp(v)
                if e.func.attr == 'isnan':
                    return z3.fpIsNaN(v)
                if e.func.attr == 'isinf':
                    return z3.fpIsInf(v)
                return z3.And(z3.Not(z3.fpIsNaN(v)), z3.Not(z3.fpIsInf(v)))
            raise Unsupported('method call .%s' % e.func.attr)
        if not isinstance(e.func, ast.Name):
            raise Unsupported('call')
        name = e.func.id
        if name == 'reduce':
            f = e.args[0]
            seq = list(self.expr(e.args[1]))
            if not (isinstance(f, ast.Attribute) and f.attr == 'add'):
                raise Unsupported('reduce with a function other than operator.add')
            out = seq[0]
            for v in seq[1:]:
                out = binop(ast.Add(), out, v)
            return out
        args = [self.expr(a) for a in e.args]
        if name == 'float':
            v = args[0]
            if is_fp(v):
                return v
            if is_bv(v):
                return to_fp(v)
            return float(v)
        if name == 'int':
            v = args[0]
            if is_fp(v):
                if self.ctx.branch(z3.fpIsNaN(v)):
                    raise SymRaise('ValueError')
                if self.ctx.branch(z3.fpIsInf(v)):
                    raise SymRaise('OverflowError')
                if self.ctx.branch(z3.fpGT(z3.fpAbs(v), z3.FPVal(self.int_bound, F64))):
                    raise Unsupported('int() of a float beyond the bit-vector width')
                return z3.fpToSBV(RTZ, v, z3.BitVecSort(BVW))
            if is_bv(v):
                return v
            return int(v)
        if name == 'sum':
            out = 0
            for v in list(args[0]):
                out = binop(ast.Add(), out, v)
            return out
        if name in ('min', 'max'):
            seq = list(args[0]) if len(args) == 1 else list(args)
            out = seq[0]
            for v in seq[1:]:
                c = compare(ast.Lt() if name == 'min' else ast.Gt(), v, out)
                if is_sym(c):
                    a, b = (to_fp(v), to_fp(out)) if (is_fp(v) or is_fp(out) or isinstance(v, float)
                                                       or isinstance(out, float)) else (to_bv(v), to_bv(out))
                    out = z3.If(c, a, b)
                else:
                    out = v if c else out
            return out
        if name == 'abs':
            v = args[0]
            if is_fp(v):
                return z3.fpAbs(v)
            if is_bv(v):
                return z3.If(v < 0, -v, v)
            return abs(v)
        if name in ('any', 'all'):
            seq = list(args[0])
            if not any(is_sym(v) for v in seq):
                return any(seq) if name == 'any' else all(seq)
            ts = [v if is_sym(v) else z3.BoolVal(bool(v)) for v in seq]
            return z3.Or(*ts) if name == 'any' else z3.And(*ts)
        if name in ('len', 'range', 'list', 'sorted', 'enumerate', 'zip', 'isinstance', 'str', 'bool', 'dict'):
            if any(is_sym(a) for a in args):
                raise Unsupported('%s() of a symbolic value' % name)
            return _BUILTINS[name](*args)
        f = self.env.get(name)
        if callable(f):
            return f(*args)
        raise Unsupported('call to %s' % name)


_BUILTINS = {'len': len, 'range': range, 'list': list, 'sorted': sorted, 'enumerate': enumerate, 'zip': zip,
             'isinstance': isinstance, 'str': str, 'bool': bool, 'dict': dict, 'int': int, 'float': float,
             'True': True, 'False': False, 'None': None, 'ValueError': ValueError, 'Exception': Exception}
