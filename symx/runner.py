"""Parallel driver for symx explorations + evidence / findings / replay plumbing."""
import concurrent.futures as cf
import json
import multiprocessing as mp
import os
import re
import sys
import time
import traceback

from .core import Explorer, ConcreteCtx, Violation, PathAbort

VERIF = os.path.dirname(os.path.dirname(os.path.abspath(__file__)))
NPROC = int(os.environ.get('VERIF_NPROC', '16'))

_REG = {}


def _jsonable(x, depth=0):
    if depth > 6:
        return repr(x)
    if isinstance(x, (str, int, float, bool)) or x is None:
        return x
    if isinstance(x, dict):
        return {str(k): _jsonable(v, depth + 1) for k, v in x.items()}
    if isinstance(x, (list, tuple, set, frozenset)):
        xs = list(x)
        if isinstance(x, (set, frozenset)):
            xs = sorted(xs, key=repr)
        return [_jsonable(v, depth + 1) for v in xs]
    return repr(x)


class Section(object):
    """Statistics of one exploration (one harness part)."""

    def __init__(self, name):
        self.name = name
        self.paths = 0
        self.by_status = {}
        self.nontrivial = 0
        self.obligations = 0
        self.discharged = 0
        self.validated = 0
        self.witnesses = set()
        self.samples = []
        self.violations = []
        self.harness_errors = []
        self.inconclusive = []
        self.queries = 0
        self.solver_s = 0.0
        self.unexplored = 0
        self.wall_s = 0.0
        self.extra = {}
        self.by_param = {}

    def merge(self, o):
        self.paths += o.paths
        for k, v in o.by_status.items():
            self.by_status[k] = self.by_status.get(k, 0) + v
        self.nontrivial += o.nontrivial
        self.obligations += o.obligations
        self.discharged += o.discharged
        self.validated += o.validated
        self.witnesses |= o.witnesses
        for s in o.samples:
            if len(self.samples) < 4:
                self.samples.append(s)
        self.violations.extend(o.violations[:20])
        self.harness_errors.extend(o.harness_errors[:5])
        self.inconclusive.extend(o.inconclusive[:5])
        self.queries += o.queries
        self.solver_s += o.solver_s
        self.unexplored += o.unexplored
        for k, v in o.by_param.items():
            self.by_param[k] = self.by_param.get(k, 0) + v

    @property
    def exhaustive(self):
        return self.unexplored == 0 and not self.inconclusive and not self.harness_errors


def _work(item):
    key, pidx, prefix, chunk, seed, validate, qto, backend = item
    factory, params, sigf = _REG[key]
    param = params[pidx]
    sec = Section(key)
    try:
        body = factory(param)
    except Exception:
        sec.harness_errors.append({'param': _jsonable(param), 'message': traceback.format_exc()})
        return pidx, sec, []

    def on_path(r):
        sec.paths += 1
        sec.by_status[r.status] = sec.by_status.get(r.status, 0) + 1
        sec.obligations += r.obligations
        sec.discharged += r.discharged
        sec.witnesses.update(r.witnesses)
        if r.status in ('ok', 'violation'):
            if validate:
                sec.validated += 1
            if r.obligations > 0 and r.forks > 0:
                sec.nontrivial += 1
        if r.status == 'ok' and len(sec.samples) < 2 and r.obligations > 0:
            sec.samples.append({'param': _jsonable(param), 'decisions': _jsonable(r.decisions),
                                'assignment': _jsonable(r.assignment),
                                'observable': _jsonable(r.observable)})
        elif r.status == 'violation':
            v = {'param': _jsonable(param), 'assignment': _jsonable(r.assignment),
                 'message': r.message, 'detail': _jsonable(r.observable), 'pidx': pidx}
            try:
                v['key'] = sigf(param, r.assignment, r.message, r.observable) if sigf else r.message
            except Exception:
                v['key'] = r.message
            if len(sec.violations) < 50:
                sec.violations.append(v)
        elif r.status == 'harness_error':
            if len(sec.harness_errors) < 5:
                sec.harness_errors.append({'param': _jsonable(param), 'decisions': _jsonable(r.decisions),
                                           'assignment': _jsonable(r.assignment), 'message': r.message})
        elif r.status == 'inconclusive':
            if len(sec.inconclusive) < 5:
                sec.inconclusive.append({'param': _jsonable(param), 'decisions': _jsonable(r.decisions),
                                         'message': r.message})
    ex = Explorer(body, prefix=prefix, seed=seed, validate=validate, query_timeout_ms=qto, backend=backend)
    try:
        n, frontier = ex.explore(max_paths=chunk, on_path=on_path)
    except Exception:
        sec.harness_errors.append({'param': _jsonable(param), 'message': traceback.format_exc()})
        frontier = []
    pname = param.get('name', str(pidx)) if isinstance(param, dict) else str(pidx)
    sec.by_param[pname] = sec.paths
    sec.queries = ex.queries
    sec.solver_s = ex.solver_s
    return pidx, sec, frontier


def _init_worker():
    # die with the parent (no orphaned pools when a check is interrupted)
    try:
        import ctypes
        import signal
        ctypes.CDLL('libc.so.6').prctl(1, signal.SIGKILL)
    except Exception:
        pass


def explore_parallel(name, factory, params, signature=None, max_paths=None, chunk=400, seed=0,
                     validate=True, query_timeout_ms=20000, deadline_s=None, nproc=None, backend='z3',
                     per_param_max=None):
    """Explore body=factory(param) for every param; split the decision trees dynamically
    over a fork()ed pool.  Returns a Section."""
    t0 = time.time()
    key = name
    _REG[key] = (factory, params, signature)
    if deadline_s is None and os.environ.get('VERIF_DEADLINE_S'):
        # wall-clock cap per exploration (harness.run sets it for the thorough tier); reported as unexplored work, never as success
        deadline_s = float(os.environ['VERIF_DEADLINE_S'])
    total = Section(name)
    nproc = nproc or NPROC
    ctx = mp.get_context('fork')
    pending = set()
    per_param = {}
    queue = [(key, i, [], chunk, seed, validate, query_timeout_ms, backend) for i in range(len(params))]
    queue.reverse()
    with cf.ProcessPoolExecutor(max_workers=nproc, mp_context=ctx, initializer=_init_worker) as pool:
        def budget_left():
            if max_paths is not None and total.paths >= max_paths:
                return False
            if deadline_s is not None and time.time() - t0 > deadline_s:
                return False
            return True
        while queue or pending:
            while queue and len(pending) < nproc * 2 and budget_left():
                item = None
                # fair budget: skip work items of parameters that used up their own share
                for qi in range(len(queue) - 1, -1, -1):
                    if per_param_max is None or per_param.get(queue[qi][1], 0) < per_param_max:
                        item = queue.pop(qi)
                        break
                if item is None:
                    break
                if len(queue) + len(pending) < nproc * 2 and chunk > 16:
                    # not enough work items yet to keep the pool busy: split early
                    item = item[:3] + (16,) + item[4:]
                pending.add(pool.submit(_work, item))
            if not pending:
                break
            done, pending = cf.wait(pending, return_when=cf.FIRST_COMPLETED)
            for f in done:
                pidx, sec, frontier = f.result()
                per_param[pidx] = per_param.get(pidx, 0) + sec.paths
                total.merge(sec)
                for p in frontier:
                    queue.append((key, pidx, p, chunk, seed, validate, query_timeout_ms, backend))
        total.unexplored += len(queue)
    total.wall_s = time.time() - t0
    return total


def replay_assignment(factory, param, assignment):
    body = factory(param)
    c = ConcreteCtx(assignment)
    try:
        obs = body(c)
        return 'ok', None, obs
    except Violation as e:
        return 'violation', e.msg, e.detail
    except PathAbort:
        return 'infeasible', None, None


# ---------------------------------------------------------------------------------------
class Report(object):
    """Collects sections, findings, and writes the evidence file + exit status."""

    def __init__(self, prop, tier, seed, level='other'):
        self.prop = prop
        self.tier = tier
        self.seed = seed
        self.level = level
        self.t0 = time.time()
        self.sections = []
        self.assumptions = []
        self.functions = []
        self.bounds = {}
        self.outside = []
        self.explanation = ''
        self.required_witnesses = []
        self.extra_violations = []   # from non-symx engines: dicts with key/message/replay payload
        self.notes = []
        self.harness_errors = []
        self.engine_stats = {}
        self.samples = []

    def add(self, sec):
        self.sections.append(sec)
        return sec

    def known(self):
        p = os.path.join(VERIF, 'known_findings.json')
        if not os.path.exists(p):
            return []
        with open(p) as f:
            return [e for e in json.load(f).get('findings', []) if e.get('property') == self.prop]

    def finish(self):
        viol = []
        for s in self.sections:
            for v in s.violations:
                v = dict(v)
                v['section'] = s.name
                viol.append(v)
        viol.extend(self.extra_violations)
        herr = list(self.harness_errors)
        for s in self.sections:
            for h in s.harness_errors:
                h = dict(h)
                h['section'] = s.name
                herr.append(h)
        wit = set()
        for s in self.sections:
            wit |= s.witnesses
        wit |= set(self.engine_stats.get('witnesses', []))
        missing_w = [w for w in self.required_witnesses if w not in wit]
        truncated = any(s.unexplored for s in self.sections)
        for w in missing_w:
            if truncated:
                # a path budget or the wall-clock cap cut the exploration: the witness may lie in the unexplored part; this is
                # reported (evidence: exhaustive=false, note) but it is not a vacuous harness
                self.notes.append('witness %r not reached within the explored part (exploration truncated by budget / deadline)' % w)
            else:
                herr.append({'message': 'vacuity: witness %r never satisfied' % w})
        known = self.known()
        open_known = [k for k in known if k.get('status', 'open') == 'open']
        new, listed = [], {}
        for v in viol:
            hit = None
            for k in open_known:
                if re.search(k['pattern'], v.get('key') or ''):
                    hit = k
                    break
            if hit is None:
                new.append(v)
            else:
                listed.setdefault(hit['id'], (hit, []))[1].append(v)
        os.makedirs(os.path.join(VERIF, 'replays'), exist_ok=True)
        lines = []
        for kid, (k, vs) in sorted(listed.items()):
            lines.append('KNOWN-FINDING: property=%s %s (%d counterexample(s) this run, e.g. %s)'
                         % (self.prop, k['description'], len(vs), vs[0].get('key')))
        seen = set()
        n_new = 0
        for i, v in enumerate(new):
            if v.get('key') in seen:
                continue
            seen.add(v.get('key'))
            n_new += 1
            if n_new > 10:
                break
            path = os.path.join(VERIF, 'replays', '%s_%d.json' % (self.prop, n_new))
            with open(path, 'w') as f:
                json.dump({'property': self.prop, 'violation': v}, f, indent=1, default=repr)
            lines.append('VIOLATION property=%s replay=%s' % (self.prop, path))
            lines.append('  what: %s :: %s' % (v.get('section'), v.get('key')))
        ev = self._evidence(viol, new, listed, herr, missing_w)
        os.makedirs(os.path.join(VERIF, 'evidence'), exist_ok=True)
        with open(os.path.join(VERIF, 'evidence', self.prop + '.json'), 'w') as f:
            json.dump(ev, f, indent=1, default=repr)
        for s in self.sections:
            print('[%s] %-28s paths=%d %s nontrivial=%d oblig=%d/%d queries=%d solver=%.1fs wall=%.1fs unexplored=%d'
                  % (self.prop, s.name, s.paths, dict(s.by_status), s.nontrivial, s.discharged,
                     s.obligations, s.queries, s.solver_s, s.wall_s, s.unexplored))
            if 1 < len(s.by_param) <= 12:
                print('[%s]    paths by param: %s' % (self.prop, s.by_param))
        for n in self.notes:
            print('[%s] %s' % (self.prop, n))
        for l in lines:
            print(l)
        if new:
            # a replayed violation takes precedence over harness diagnostics (which it usually explains)
            for h in herr[:3]:
                print('HARNESS-NOTE property=%s %s' % (self.prop, str(h.get('message', ''))[-300:].replace('\n', ' ')))
            return 1
        if herr:
            for h in herr[:3]:
                msg = str(h.get('message', ''))
                print('HARNESS-ERROR property=%s section=%s param=%s decisions=%s\n    %s' % (
                    self.prop, h.get('section'), json.dumps(h.get('param'), default=repr)[:200],
                    json.dumps(h.get('decisions'), default=repr)[:200], msg[-900:].replace('\n', '\n    ')))
            return 3
        if new:
            return 1
        print('[%s] OK tier=%s exhaustive=%s wall=%.1fs' % (self.prop, self.tier, ev['coverage']['exhaustive'],
                                                           time.time() - self.t0))
        return 0

    def _evidence(self, viol, new, listed, herr, missing_w):
        S = self.sections
        es = self.engine_stats
        evaluations = sum(s.paths for s in S) + es.get('evaluations', 0)
        nontriv = sum(s.nontrivial for s in S) + es.get('distinct_nontrivial', 0)
        obligations = sum(s.obligations for s in S) + es.get('obligations', 0)
        discharged = sum(s.discharged for s in S) + es.get('discharged', 0)
        samples = []
        for s in S:
            samples.extend(s.samples[:2])
        samples.extend(self.samples)
        if not samples:
            samples = [{'note': 'no completed path'}]
        exhaustive = all(s.exhaustive for s in S) and es.get('exhaustive', True) and bool(S or es)
        inconcl = []
        for s in S:
            inconcl.extend(s.inconclusive)
        inconcl.extend(es.get('inconclusive', []))
        cov = {
            'evaluations': evaluations,
            'distinct_nontrivial': nontriv,
            'rule': 'one evaluation = one feasible path of the real code (distinct decision vector / solver query); '
                    'non-trivial = reached >=1 assertion and forked on >=1 symbolic decision',
            'samples': samples[:8],
            'obligations': obligations,
            'discharged': discharged,
            'traces_validated_against_impl': sum(s.validated for s in S) + es.get('validated', 0),
            'explanation': self.explanation,
            'exhaustive': bool(exhaustive),
            'functions_encoded': self.functions,
            'bounds': self.bounds,
            'outside_claim': self.outside,
            'solver_queries': sum(s.queries for s in S) + es.get('queries', 0),
            'solver_s': round(sum(s.solver_s for s in S) + es.get('solver_s', 0.0), 3),
            'inconclusive': inconcl[:10],
            'inconclusive_count': len(inconcl),
            'unexplored_prefixes': sum(s.unexplored for s in S),
            'sections': [{'name': s.name, 'paths': s.paths, 'by_status': s.by_status,
                          'obligations': s.obligations, 'discharged': s.discharged,
                          'nontrivial': s.nontrivial, 'queries': s.queries,
                          'solver_s': round(s.solver_s, 3), 'wall_s': round(s.wall_s, 2),
                          'unexplored_prefixes': s.unexplored,
                          'witnesses': sorted(s.witnesses), 'extra': s.extra,
                          'paths_by_param': s.by_param if len(s.by_param) <= 40 else {'n_params': len(s.by_param)}} for s in S],
            'engine_stats': {k: v for k, v in es.items() if k not in ('inconclusive',)},
            'known_findings_hit': {k: len(v[1]) for k, v in listed.items()},
            'harness_errors': herr[:5],
            'notes': self.notes,
        }
        return {
            'property_id': self.prop,
            'tier': self.tier,
            'seed': self.seed,
            'level': self.level,
            'coverage': cov,
            'assumptions': self.assumptions,
            'wall_s': round(time.time() - self.t0, 2),
            'violations': len(new),
        }
