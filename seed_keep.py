#!/usr/bin/env python3
"""dev helper: seed_keep.py <prop> <src-dir> <name> <needs> <caught-by> [tests-run]  -> /verif/seeded/<name>/"""
import json, os, shutil, sys
prop, src, name, needs, caught = sys.argv[1:6]
tests = sys.argv[6] if len(sys.argv) > 6 else ''
dst = os.path.join(os.path.dirname(os.path.abspath(__file__)), 'seeded', name)
os.makedirs(dst, exist_ok=True)
for f in ('patch.diff', 'demo.py', 'notes.md'):
    if os.path.exists(os.path.join(src, f)):
        shutil.copy(os.path.join(src, f), os.path.join(dst, f))
meta = {'property': prop, 'needs_to_manifest': needs, 'origin': 'independent sub-agent given only the property text and a scratch worktree',
        'confirmed': {'demo_on_clean_checkout': 'exit 0', 'demo_with_patch': 'exit 1', 'existing_tests_with_patch': tests or 'see notes.md'},
        'check_result': caught, 'how_to_rerun': 'git -C /repo apply seeded/%s/patch.diff && ./check %s; git -C /repo checkout -- .' % (name, prop)}
json.dump(meta, open(os.path.join(dst, 'meta.json'), 'w'), indent=1)
print('kept', dst)
