"""C06 -- DSL 2.0 compilation preserves the dataflow and parameter bindings (engine E1, reduced scope).

Real code per path: dsl.Namespace(**doc) (pydantic), dsl.namespace_to_flowir -> ScopeStack.from_namespace /
discover_all_instances_of_templates, replace_parameter_references, Scope.replace_step_references,
ComponentFlowIR.convert_outputreferences_to_datareferences, then FlowIRConcrete.validate.
Symbolic: the shape of the namespace (which template each step instantiates, how every parameter of every call site is
supplied, which sibling / nested step an output reference names, one optional structural fault).
"""
import copy
import signal

import pydantic

import experiment.model.errors as errors
import experiment.model.frontends.dsl as dsl
from experiment.model.frontends.flowir import FlowIR

from symx.runner import explore_parallel, Report, replay_assignment

LEAF = {'signature': {'name': 'leaf', 'parameters': [{'name': 'id'}, {'name': 'p'}, {'name': 'q', 'default': 'Q-default'},
                                                        {'name': 'inp', 'default': ''}]},
        'command': {'executable': 'echo', 'arguments': '%(id)s %(p)s %(q)s %(inp)s'}}


def make_namespace(ctx, depth2):
    """Returns (namespace dict, expected flattening).  Expected: {instance path: {'id','p','q','inp':(producer path,file,method)|None}}"""
    # literal overrides of a defaulted parameter are either a text or the (falsy) empty string -- chosen once per namespace
    empty = ctx.flag('literal_overrides_are_empty')

    def QL(name):
        return '' if empty else name
    foo = 'FOO-entry'
    entry_args = {'foo': foo}
    main_params = {'foo': foo, 'bar': 'BAR-default'}
    kinds = {'sa': ctx.choice('template:sa', ['leaf', 'inner']), 'sb': ctx.choice('template:sb', ['leaf', 'inner']), 'sc': 'leaf'}
    expected = {}
    main_exec = []
    inner_used = [s for s in ('sa', 'sb') if kinds[s] == 'inner']

    # ---- inner workflow (one definition, possibly instantiated twice)
    inner_choices = {}
    if inner_used:
        inner_choices['ib_inp'] = ctx.choice('inner:ib:inp', ['omitted', '<ia>:output', '<ia/data.txt>:ref', '%(x)s'])
        inner_choices['ia_q'] = ctx.choice('inner:ia:q', ['omitted', 'lit', '%(y)s'])
        inner_choices['ia_p'] = ctx.choice('inner:ia:p', ['lit', '%(x)s'])
        nested2 = depth2 and ctx.flag('inner_has_nested_workflow')
    else:
        nested2 = False

    def leaf_call(step, idv, p, q, inp):
        args = {'id': idv, 'p': p}
        if q is not None:
            args['q'] = q
        if inp is not None:
            args['inp'] = inp
        return {'target': '<%s>' % step, 'args': args}

    def inner_def():
        ic = inner_choices
        ex = [leaf_call('ia', '%(tag)s.ia', {'lit': 'P-ia', '%(x)s': '%(x)s'}[ic['ia_p']],
                        {'omitted': None, 'lit': QL('Q-ia'), '%(y)s': '%(y)s'}[ic['ia_q']], None),
              leaf_call('ib', '%(tag)s.ib', 'P-ib', None,
                        None if ic['ib_inp'] == 'omitted' else ic['ib_inp'])]
        steps = {'ia': 'leaf', 'ib': 'leaf'}
        if nested2:
            steps['deep'] = 'innermost'
            ex.append({'target': '<deep>', 'args': {'tag': '%(tag)s.deep', 'z': '%(x)s'}})
        return {'signature': {'name': 'inner', 'parameters': [{'name': 'tag'}, {'name': 'x'}, {'name': 'y', 'default': 'Y-default'}]},
                'steps': steps, 'execute': ex}

    def resolve_in_inner(text, env):
        for k, v in env.items():
            text = text.replace('%%(%s)s' % k, v)
        return text

    # ---- main call sites
    workflows = []
    for step in ('sa', 'sb', 'sc'):
        if kinds[step] == 'leaf':
            others = [s for s in ('sa', 'sb', 'sc') if s != step and ('sa', 'sb', 'sc').index(s) < ('sa', 'sb', 'sc').index(step)]
            inp_opts = ['omitted']
            for o in others:
                if kinds[o] == 'leaf':
                    inp_opts += ['<%s>:output' % o, '<%s/out.txt>:ref' % o]
                else:
                    inp_opts += ['<%s/ia>:output' % o, '<%s/ib/res.csv>:copy' % o]
            inp = ctx.choice('main:%s:inp' % step, inp_opts)
            q = ctx.choice('main:%s:q' % step, ['omitted', 'lit', '%(bar)s'])
            p = ctx.choice('main:%s:p' % step, ['lit', '%(foo)s'])
            main_exec.append(leaf_call(step, 'main.%s' % step, {'lit': 'P-%s' % step, '%(foo)s': '%(foo)s'}[p],
                                       {'omitted': None, 'lit': QL('Q-%s' % step), '%(bar)s': '%(bar)s'}[q],
                                       None if inp == 'omitted' else inp))
            expected[(step,)] = {'id': 'main.%s' % step, 'p': {'lit': 'P-%s' % step, '%(foo)s': main_params['foo']}[p],
                                 'q': {'omitted': 'Q-default', 'lit': QL('Q-%s' % step), '%(bar)s': main_params['bar']}[q],
                                 'inp': None if inp == 'omitted' else parse_ref(inp, ())}
        else:
            others = [s for s in ('sa', 'sb', 'sc') if kinds[s] == 'leaf' and ('sa', 'sb', 'sc').index(s) < ('sa', 'sb', 'sc').index(step)]
            x_opts = ['lit', '%(foo)s'] + ['<%s>:output' % o for o in others]
            x = ctx.choice('main:%s:x' % step, x_opts)
            y = ctx.choice('main:%s:y' % step, ['omitted', 'lit'])
            args = {'tag': 'tag-%s' % step, 'x': {'lit': 'X-%s' % step, '%(foo)s': '%(foo)s'}.get(x, x)}
            if y == 'lit':
                args['y'] = QL('Y-%s' % step)
            main_exec.append({'target': '<%s>' % step, 'args': args})
            xval = {'lit': 'X-%s' % step, '%(foo)s': main_params['foo']}.get(x, x)
            env = {'tag': 'tag-%s' % step, 'x': xval, 'y': QL('Y-%s' % step) if y == 'lit' else 'Y-default'}
            ic = inner_choices

            def val(v):
                # a parameter that carries an output reference of the parent scope
                if v.startswith('<'):
                    return ('ref', parse_ref(v, ()))
                return v
            pa = {'lit': 'P-ia', '%(x)s': env['x']}[ic['ia_p']]
            expected[(step, 'ia')] = {'id': env['tag'] + '.ia', 'p': val(pa),
                                      'q': {'omitted': 'Q-default', 'lit': QL('Q-ia'), '%(y)s': env['y']}[ic['ia_q']], 'inp': None}
            ib_inp = ic['ib_inp']
            if ib_inp == 'omitted':
                e_inp = None
            elif ib_inp == '%(x)s':
                e_inp = val(env['x'])
                e_inp = e_inp[1] if isinstance(e_inp, tuple) else ('text', e_inp)
            else:
                e_inp = parse_ref(ib_inp, (step,))
            expected[(step, 'ib')] = {'id': env['tag'] + '.ib', 'p': 'P-ib', 'q': 'Q-default', 'inp': e_inp}
            if nested2:
                zval = val(env['x'])
                expected[(step, 'deep', 'leafz')] = {'id': env['tag'] + '.deep.leafz', 'p': zval, 'q': 'Q-default', 'inp': None}
    workflows.append({'signature': {'name': 'main', 'parameters': [{'name': 'foo'}, {'name': 'bar', 'default': 'BAR-default'}]},
                      'steps': {s: kinds[s] for s in ('sa', 'sb', 'sc')}, 'execute': main_exec})
    if inner_used:
        workflows.append(inner_def())
        if nested2:
            workflows.append({'signature': {'name': 'innermost', 'parameters': [{'name': 'tag'}, {'name': 'z'}]},
                              'steps': {'leafz': 'leaf'},
                              'execute': [leaf_call('leafz', '%(tag)s.leafz', '%(z)s', None, None)]})
    ns = {'entrypoint': {'entry-instance': 'main', 'execute': [{'target': '<entry-instance>', 'args': entry_args}]},
          'workflows': workflows, 'components': [copy.deepcopy(LEAF)]}
    return ns, expected, kinds


def parse_ref(text, scope):
    """'<a/b/file>:method' relative to the workflow instance `scope` -> ('path', raw steps+file segments, method)"""
    body, method = text.rsplit(':', 1)
    segs = body[1:-1].split('/')
    return ('path', scope, tuple(segs), method)


FAULTS = ['none', 'unknown_step_reference', 'missing_required_parameter', 'unknown_parameter', 'cyclic_templates',
          'unknown_template', 'reference_to_later_unknown_nested_step']


def inject(ctx, ns, fault):
    main = ns['workflows'][0]
    if fault == 'unknown_step_reference':
        main['execute'][-1]['args']['inp'] = '<ghost>:output'
    elif fault == 'missing_required_parameter':
        del main['execute'][-1]['args']['p']
    elif fault == 'unknown_parameter':
        main['execute'][-1]['args']['nope'] = 'value'
    elif fault == 'cyclic_templates':
        ns['workflows'].append({'signature': {'name': 'loopy', 'parameters': [{'name': 'foo', 'default': 'x'}]}, 'steps': {'again': 'loopy'},
                                'execute': [{'target': '<again>', 'args': {}}]})
        main['steps']['cyc'] = 'loopy'
        main['execute'].append({'target': '<cyc>', 'args': {}})
    elif fault == 'unknown_template':
        main['steps']['sc'] = 'no-such-template'
    elif fault == 'reference_to_later_unknown_nested_step':
        main['execute'][-1]['args']['inp'] = '<sa/nothing-here>:output'


class _Hang(BaseException):
    pass


def body_factory(depth2):
    def body(ctx):
        ns, expected, kinds = make_namespace(ctx, depth2)
        fault = ctx.choice('fault', FAULTS)
        if fault == 'reference_to_later_unknown_nested_step':
            ctx.assume(kinds['sa'] == 'inner')
        inject(ctx, ns, fault)
        detail = {'fault': fault, 'kinds': kinds}
        def on_alarm(sig, frm):
            raise _Hang()
        old_handler = signal.signal(signal.SIGALRM, on_alarm)
        signal.alarm(20)
        try:
            namespace = dsl.Namespace(**copy.deepcopy(ns))
            flowir = dsl.namespace_to_flowir(namespace)
            err = None
        except _Hang as e:
            flowir, err = None, e
        except errors.DSLInvalidError as e:
            flowir, err = None, e
        except pydantic.ValidationError as e:
            flowir, err = None, e
        except RecursionError as e:
            flowir, err = None, e
        except Exception as e:
            flowir, err = None, e
        finally:
            signal.alarm(0)
            signal.signal(signal.SIGALRM, old_handler)
        detail['error'] = (type(err).__name__ + ': ' + str(err)[:300]) if err is not None else None
        ctx.check(not isinstance(err, _Hang), 'compilation terminates (no hang on an invalid namespace)', detail)
        if fault != 'none':
            ctx.witness('invalid_namespace')
            ctx.check(err is not None, 'an invalid namespace is rejected', detail)
            ctx.check(isinstance(err, errors.DSLInvalidError),
                      'an invalid namespace is rejected with a DSL error, not with another kind of exception', detail)
            ctx.check(bool(err.underlying_errors) and all(getattr(u, 'location', None) for u in err.underlying_errors),
                      'the DSL error lists the offending locations', ([str(u) for u in err.underlying_errors], detail))
            return ('rejected', fault)
        ctx.check(err is None, 'a valid namespace compiles', detail)
        raw = flowir.raw()
        comps = raw['components']
        names = [c['name'] for c in comps]
        ctx.check(len(names) == len(set(names)), 'compiled component names are unique', (names, detail))
        ctx.check(len(comps) == len(expected), 'one component per reachable component step', (names, sorted(expected), detail))
        by_id = {}
        for c in comps:
            by_id[c['command']['arguments'].split(' ')[0]] = c
        id_of = {path: e['id'] for path, e in expected.items()}
        ctx.check(set(by_id) == set(id_of.values()), 'every step instance is compiled exactly once', (sorted(by_id), sorted(id_of.values())))

        def ref_text(r):
            kind, scope, segs, method = r
            # longest prefix of segs that names an instance
            for n in range(len(segs), 0, -1):
                cand = tuple(scope) + tuple(segs[:n])
                if cand in expected:
                    prod = by_id[id_of[cand]]
                    return FlowIR.compile_reference(prod['name'], '/'.join(segs[n:]) or None, method, prod['stage'])
            return '<unresolved %r>' % (r,)
        variables = raw.get('variables', {}).get('default', {}).get('global', {})
        for path, e in sorted(expected.items()):
            c = by_id[e['id']]

            def show(v):
                if isinstance(v, tuple) and v[0] == 'ref':
                    return ref_text(v[1])
                return v
            inp = e['inp']
            inp_text = '' if inp is None else (inp[1] if inp[0] == 'text' else ref_text(inp))
            want_args = ' '.join([e['id'], show(e['p']), e['q'], inp_text])
            got_args = c['command']['arguments']
            for k, v in variables.items():          # parameters of the entry workflow may stay variables
                got_args = got_args.replace('%%(%s)s' % k, str(v))
            ctx.check(got_args == want_args, 'every parameter reference is replaced by the argument supplied along its call chain',
                      (path, got_args, want_args, detail))
            want_refs = []
            for v in (e['p'], inp):
                if isinstance(v, tuple) and v[0] == 'ref':
                    want_refs.append(ref_text(v[1]))
                elif isinstance(v, tuple) and v[0] == 'path':
                    want_refs.append(ref_text(v))
            ctx.check(sorted(c.get('references', [])) == sorted(set(want_refs)),
                      'producer/consumer relation equals the output references between steps', (path, c.get('references'), want_refs, detail))
            ctx.check('%(' not in got_args, 'no parameter reference remains', (path, got_args))
            if want_refs:
                ctx.witness('dataflow_edge_checked')
            if len(path) > 1:
                ctx.witness('nested_instance_checked')
        verrs = flowir.validate()
        ctx.check(not verrs, 'the compiled FlowIR passes validation', ([str(x)[:200] for x in verrs], detail))
        return ('compiled', tuple(sorted(names)))
    return body


def factory(param):
    return body_factory(param['depth2'])


def signature(param, assignment, message, detail):
    d = detail
    while isinstance(d, (list, tuple)) and d:
        d = d[-1]
    d = d if isinstance(d, dict) else {}
    return '%s|fault=%s' % (message, d.get('fault'))


def main(tier, seed, only=None):
    rep = Report('C06', tier, seed)
    depth2 = tier != 'quick'
    max_paths = 130000 if tier == 'quick' else 3000000
    rep.functions = ['dsl.Namespace (pydantic models)', 'dsl.namespace_to_flowir', 'ScopeStack.from_namespace / discover_all_instances_of_templates',
                     'replace_parameter_references / _replace_many_parameter_references', 'Scope.replace_step_references',
                     'ComponentFlowIR.convert_outputreferences_to_datareferences / resolve_parameter_references', 'digest_dsl_component',
                     'FlowIRConcrete.validate']
    rep.bounds = {'namespace': 'entry workflow with 3 steps (two may instantiate a nested workflow, possibly both), nested workflow with 2 leaf steps'
                               + (' and optionally a third nesting level' if depth2 else ''),
                  'call sites': 'each parameter literal (a text, or the empty string overriding a non-empty default) / forwarded parent parameter / default; inputs: omitted, output of a sibling (<s>:output, <s/file>:ref), '
                                'of a step nested in a sibling workflow (<s/ia>:output), or handed down through a workflow parameter',
                  'faults': FAULTS, 'max_paths': max_paths}
    rep.outside = ['text inside arguments beyond the token grammar', 'environments and key-outputs naming', 'replicas', 'variables of components']
    rep.assumptions = ['each path is one concrete namespace; literal values are unique tokens per call site so the supplied argument is observable',
                       'every leaf step carries an id parameter that identifies its instance in the compiled output']
    rep.explanation = ('bounded symbolic execution (symx/z3) over the shape of the namespace; the real compiler runs on every path; oracle = independent '
                       'flattening of the skeleton (instances, argument values along the call chain, producer/consumer relation)')
    rep.required_witnesses = ['invalid_namespace', 'dataflow_edge_checked', 'nested_instance_checked']
    s = explore_parallel('namespaces', factory, [{'depth2': depth2, 'name': 'depth%d' % (2 if depth2 else 1)}], signature=signature,
                         seed=seed, chunk=200, validate=False, max_paths=max_paths)
    rep.add(s)
    return rep.finish()


def replay(v):
    st, msg, detail = replay_assignment(factory, v['param'], v['assignment'])
    print('replay: %s %s %s' % (st, msg, str(detail)[:2500]))
    return 1 if st == 'violation' else 0
