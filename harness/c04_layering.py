"""C04 -- resolved component configuration follows the documented layering order (engine E1).

Real code per path: FlowIRConcrete.__init__, get_component_configuration(raw=False, include_default=True,
platform=P), get_component_variables, blueprint getters, FlowIR.override_object,
inject_default_values_to_component, fill_in / interpolate, convert_component_types, and
FlowIRExperimentConfiguration._patch_in_variable_files + layer_many_variable_files (file reader stubbed).
"""
import experiment.model.conf as conf
import experiment.model.errors as errors
from experiment.model.frontends.flowir import FlowIRConcrete, FlowIR

from symx.runner import explore_parallel, Report, replay_assignment


def patch_user_vars(concrete, files):
    """Run the real _patch_in_variable_files with read_user_variables answering from memory."""
    Cfg = conf.FlowIRExperimentConfiguration
    orig = Cfg.__dict__['read_user_variables']
    Cfg.read_user_variables = classmethod(lambda cls, path, out_errors, validate=True: dict(files[path]))
    try:
        errs = []
        Cfg._patch_in_variable_files(list(files), concrete, errs)
        return errs
    finally:
        Cfg.read_user_variables = orig


def body_variables(ctx):
    """One variable v, every combination of layers defining it; component in stage 0."""
    platform = ctx.choice('platform', ['default', 'P'])
    f = lambda n: ctx.flag(n)
    doc = {'platforms': ['default', 'P', 'Q'],
           'variables': {'default': {'global': {}, 'stages': {0: {}, 1: {}}},
                         'P': {'global': {}, 'stages': {0: {}, 1: {}}},
                         'Q': {'global': {}, 'stages': {0: {}, 1: {}}}},
           'components': [{'stage': 0, 'name': 'c', 'command': {'executable': 'echo', 'arguments': '<%(v)s>'},
                           'variables': {}, 'override': {}},
                          {'stage': 1, 'name': 'other', 'command': {'executable': 'echo'}}]}
    layers = []   # (priority order) -> token, applicable?
    V = doc['variables']
    if f('default_global'):
        V['default']['global']['v'] = 'DG'
        layers.append('DG')
    if f('default_stage0'):
        V['default']['stages'][0]['v'] = 'DS'
        layers.append('DS')
    if f('default_stage1'):
        V['default']['stages'][1]['v'] = 'DS-other-stage'
    if f('P_global'):
        V['P']['global']['v'] = 'PG'
        if platform == 'P':
            layers.append('PG')
    if f('P_stage0'):
        V['P']['stages'][0]['v'] = 'PS'
        if platform == 'P':
            layers.append('PS')
    if f('Q_global'):
        V['Q']['global']['v'] = 'QG-never-visible'
    if f('Q_stage0'):
        V['Q']['stages'][0]['v'] = 'QS-never-visible'
    files = {}
    user = None
    if f('user_file1_global'):
        files.setdefault('f1', {'global': {}, 'stages': {}})['global']['v'] = 'U1G'
        user = 'U1G'
    if f('user_file2_global'):
        files.setdefault('f2', {'global': {}, 'stages': {}})['global']['v'] = 'U2G'
        user = 'U2G'
    if f('user_file1_stage0'):
        files.setdefault('f1', {'global': {}, 'stages': {}})['stages'][0] = {'v': 'U1S'}
        user = 'U1S'
    if f('user_file2_stage1'):
        files.setdefault('f2', {'global': {}, 'stages': {}})['stages'][1] = {'v': 'U2S-other-stage'}
    if user is not None:
        layers.append(user)
    comp = doc['components'][0]
    if f('component'):
        comp['variables']['v'] = 'CV'
        layers.append('CV')
    if f('override_P'):
        comp['override']['P'] = {'variables': {'v': 'OV'}}
        if platform == 'P':
            layers.append('OV')
    if f('override_Q'):
        comp['override']['Q'] = {'variables': {'v': 'OQ-never-visible'}}
    concrete = FlowIRConcrete(doc, platform, {})
    if files:
        errs = patch_user_vars(concrete, dict(sorted(files.items())))
        ctx.check(not errs, 'user variable files are layered without error', [str(e) for e in errs])
        ctx.witness('user_variables_patched')
    want = layers[-1] if layers else None
    try:
        got = concrete.get_component_configuration((0, 'c'), raw=False, include_default=True, platform=platform)
        err = None
    except Exception as e:
        got, err = None, e
    detail = {'platform': platform, 'layers': layers}
    if want is None:
        ctx.witness('undefined_variable_reported')
        ctx.check(isinstance(err, errors.FlowIRVariableUnknown),
                  'a reference to an undefined variable is reported as an undefined-variable error',
                  (detail, repr(err)))
        return 'undefined'
    ctx.check(err is None, 'a defined variable resolves', (detail, repr(err)))
    ctx.check(got['variables'].get('v') == want, 'variable value comes from the highest-priority layer defining it',
              (detail, got['variables'].get('v'), want))
    ctx.check(got['command']['arguments'] == '<%s>' % want, 'references are substituted with the layered value',
              (detail, got['command']['arguments']))
    effective = {k: v for k, v in got.items() if k != 'override'}   # 'override' is the component's own raw table
    ctx.check('never-visible' not in repr(effective), 'nothing defined only for another platform is visible', detail)
    if len(layers) >= 3:
        ctx.witness('three_layers_competing')
    return (want, platform)


OPT_LAYERS = ['default_global', 'default_stage0', 'P_global', 'P_stage0', 'component', 'override_P']


def body_options(ctx):
    """A typed option (resourceRequest.numberProcesses) through the blueprint inheritance sequence."""
    platform = ctx.choice('platform', ['default', 'P'])
    bp = {'default': {'global': {}, 'stages': {0: {}, 1: {}}}, 'P': {'global': {}, 'stages': {0: {}}},
          'Q': {'global': {}, 'stages': {0: {}}}}
    doc = {'platforms': ['default', 'P', 'Q'], 'blueprint': bp,
           'variables': {'default': {'global': {'n': 7}}},
           'components': [{'stage': 0, 'name': 'c', 'command': {'executable': 'echo', 'arguments': 'x'},
                           'override': {}}]}
    seq = []

    def val(name, n):
        kind = ctx.choice('kind_' + name, ['int', 'str', 'ref'])
        return {'int': n, 'str': str(n), 'ref': '%(n)s'}[kind], (n if kind != 'ref' else 7)
    if ctx.flag('default_global'):
        v, e = val('default_global', 11)
        bp['default']['global'] = {'resourceRequest': {'numberProcesses': v}}
        seq.append(e)
    if ctx.flag('default_stage0'):
        v, e = val('default_stage0', 12)
        bp['default']['stages'][0] = {'resourceRequest': {'numberProcesses': v}}
        seq.append(e)
    if ctx.flag('default_stage1'):
        bp['default']['stages'][1] = {'resourceRequest': {'numberProcesses': 99}}
    if ctx.flag('P_global'):
        v, e = val('P_global', 13)
        bp['P']['global'] = {'resourceRequest': {'numberProcesses': v}}
        if platform == 'P':
            seq.append(e)
    if ctx.flag('P_stage0'):
        v, e = val('P_stage0', 14)
        bp['P']['stages'][0] = {'resourceRequest': {'numberProcesses': v}}
        if platform == 'P':
            seq.append(e)
    if ctx.flag('Q_global'):
        bp['Q']['global'] = {'resourceRequest': {'numberProcesses': 98}}
    comp = doc['components'][0]
    if ctx.flag('component'):
        v, e = val('component', 15)
        comp['resourceRequest'] = {'numberProcesses': v}
        seq.append(e)
    if ctx.flag('override_P'):
        v, e = val('override_P', 16)
        comp['override']['P'] = {'resourceRequest': {'numberProcesses': v}}
        if platform == 'P':
            seq.append(e)
    if ctx.flag('override_Q'):
        comp['override']['Q'] = {'resourceRequest': {'numberProcesses': 97}}
    concrete = FlowIRConcrete(doc, platform, {})
    got = concrete.get_component_configuration((0, 'c'), raw=False, include_default=True, platform=platform)
    want = seq[-1] if seq else 1    # built-in default
    n = got['resourceRequest']['numberProcesses']
    detail = {'platform': platform, 'sequence': seq, 'got': n}
    ctx.check(n == want, 'option value comes from the highest-priority layer defining it', detail)
    ctx.check(type(n) is int, 'a typed option ends up with its declared type', (detail, type(n).__name__))
    if len(seq) >= 3:
        ctx.witness('three_blueprint_layers')
    return (want, platform)


CHAIN = ['lit', '%(a)s', '%(b)s', '%(c)s', '%(undefined)s', 'pre-%(a)s-%(b)s']


LITERALS = ['lit', 'C:\\new\\table\\1\\g<0>\\', '{0}{x}{}', '$x ${y} `z`', '100% %d']


def body_chain(ctx):
    """Chains of variables referring to other variables (substitution to a fixpoint)."""
    # the text of a literal value: substitution must copy it verbatim whatever characters it holds (characters that are
    # special to regular-expression templates, str.format, %-formatting or the shell)
    literal = ctx.choice('literal_text', LITERALS)
    vals = {k: ctx.choice('val_' + k, CHAIN) for k in ('a', 'b', 'c')}
    vals = {k: v.replace('lit', literal) for k, v in vals.items()}
    where = {k: ctx.choice('layer_' + k, ['global', 'stage', 'component']) for k in ('a', 'b', 'c')}
    doc = {'platforms': ['default'],
           'variables': {'default': {'global': {}, 'stages': {0: {}}}},
           'components': [{'stage': 0, 'name': 'c', 'command': {'executable': 'echo', 'arguments': '%(a)s'},
                           'variables': {}}]}
    for k in vals:
        if where[k] == 'global':
            doc['variables']['default']['global'][k] = vals[k]
        elif where[k] == 'stage':
            doc['variables']['default']['stages'][0][k] = vals[k]
        else:
            doc['components'][0]['variables'][k] = vals[k]

    # independent resolver: substitute to a fixpoint; cycle or undefined => error
    def resolve(text, seen):
        out = text
        for name in ('a', 'b', 'c', 'undefined'):
            ref = '%%(%s)s' % name
            if ref in out:
                if name == 'undefined':
                    raise KeyError('undefined')
                if name in seen:
                    raise RecursionError(name)
                out = out.replace(ref, resolve(vals[name], seen | {name}))
        return out
    want, werr = None, None
    for start in ('c', 'b', 'a'):     # every variable of the component is part of its resolved configuration
        try:
            want = resolve('%%(%s)s' % start, frozenset())
        except KeyError:
            werr = werr or 'undefined'
        except RecursionError:
            werr = 'cycle'
    # cyclic definitions are outside the claim (the real code ends in RecursionError): drop the path
    ctx.assume(werr != 'cycle')
    concrete = FlowIRConcrete(doc, 'default', {})
    try:
        got = concrete.get_component_configuration((0, 'c'), raw=False, include_default=True)['command']['arguments']
        gerr = None
    except Exception as e:           # any exception of the code under test is an observation, judged below
        got, gerr = None, e
    detail = {'values': vals, 'where': where, 'got': got, 'want': want, 'error': repr(gerr)}
    if werr is None:
        ctx.check(gerr is None and got == want, 'variable chains are substituted until no reference remains', detail)
        ctx.check('%(' not in (got or ''), 'no reference to a defined variable remains', detail)
        if vals['a'] != literal:
            ctx.witness('chain_resolved')
        if literal != 'lit' and literal in want:
            ctx.witness('special_characters_copied_verbatim')
    else:
        ctx.witness('chain_undefined')
        ctx.check(isinstance(gerr, errors.FlowIRVariableUnknown),
                  'a reference to an undefined variable is an undefined-variable error, not left in place', detail)
    return (want, werr)


def factory(param):
    return {'variables': body_variables, 'options': body_options, 'chain': body_chain}[param['kind']]


def signature(param, assignment, message, detail):
    return '%s|%s' % (param['kind'], message)


def main(tier, seed, only=None):
    rep = Report('C04', tier, seed)
    rep.functions = ['FlowIRConcrete.__init__', 'get_component_configuration', 'get_component_variables',
                     'get_platform_blueprint/get_platform_stage_blueprint', 'FlowIR.override_object',
                     'inject_default_values_to_component', 'FlowIR.fill_in/interpolate', 'convert_component_types',
                     'conf.FlowIRExperimentConfiguration._patch_in_variable_files', 'layer_many_variable_files']
    rep.bounds = {'variables': 'one variable, presence in 14 layer slots (default/P/Q global+stage, two user files global/stage, '
                               'component, override P/Q), platform in {default, P}',
                  'options': 'resourceRequest.numberProcesses in 6 blueprint layers + 3 invisible ones, value int / numeric string / variable reference',
                  'chains': '3 variables, each one of %s, each defined at global/stage/component level; the literal text is one of %s' % (CHAIN, LITERALS)}
    rep.outside = ['cyclic variable definitions (a: %(a)s ends in RecursionError in the real code; excluded by assumption)', 'values other than tokens / small ints (no symbolic strings)', 'DOSINI packages', 'array-index variable access',
                   'options other than resourceRequest.numberProcesses (same override_object code path)']
    rep.assumptions = ['read_user_variables stubbed to return in-memory dictionaries (file parsing is not the subject)']
    rep.explanation = ('bounded symbolic execution (symx/z3): presence of a definition in every layer, platform choice and value kinds are '
                       'solver variables; each path builds a real FlowIRConcrete and queries it; oracle = fold of the defined layers '
                       'in the documented order')
    rep.required_witnesses = ['user_variables_patched', 'undefined_variable_reported', 'three_layers_competing',
                              'three_blueprint_layers', 'chain_resolved', 'chain_undefined', 'special_characters_copied_verbatim']
    params = [{'kind': 'variables', 'name': 'variables'}, {'kind': 'options', 'name': 'options'},
              {'kind': 'chain', 'name': 'chain'}]
    if only:
        params = [p for p in params if p['name'] in only]
        rep.required_witnesses = []
    s = explore_parallel('layering', factory, params, signature=signature, seed=seed, chunk=300)
    rep.add(s)
    return rep.finish()


def replay(v):
    st, msg, detail = replay_assignment(factory, v['param'], v['assignment'])
    print('replay: %s %s %s' % (st, msg, detail))
    return 1 if st == 'violation' else 0
