"""C17 -- component environments are built only from their declared sources (engine E1).

Real code per path: FlowIRConcrete.__init__ / FlowIR.from_dict (lower-casing of environment names),
FlowIRExperimentConfiguration.environmentForNode -> environmentWithName -> defaultEnvironment,
FlowIRConcrete.get_environment / get_platform_environment / get_environments, flowir.expand_vars,
FlowIR.fill_in, os.path.expandvars.
"""
import os
import string

import experiment.model.conf as conf
import experiment.model.errors as errors
from experiment.model.frontends.flowir import FlowIRConcrete, FlowIR

from symx.runner import explore_parallel, Report, replay_assignment

SYSVARS = {'INSTANCE_DIR': '/inst', 'FLOW_EXPERIMENT_NAME': 'exp'}
NAMED = {'X': 'x-$A', 'Y': '${SECRET}y', 'PATH': 'mine:$PATH', 'Z': '$X-z', 'E': None, 'W': '$UNDEFINED_EVERYWHERE'}
NAMED_P = {'X': 'px-$A', 'Q': 'only-on-p'}
PKG = {'DEF': 'pkg-default', 'PATH': '/pkg:$PATH'}
PKG_P = {'DEF': 'pkg-default-p'}
LAUNCH = {'PATH': '/usr/bin', 'A': 'launchA', 'SECRET': 's3cr3t', 'HOME': '/home/u', 'PYTHONPATH': '/py',
          'LD_LIBRARY_PATH': '/ld'}
INTERP_VARS = ['PATH', 'PYTHONPATH', 'PYTHONHOME', 'LD_LIBRARY_PATH']


def tostr(d):
    return {str(k): ('' if v is None else str(v)) for k, v in d.items()}


def expected(sel, platform, has, defaults, launch, interp):
    """Independent statement of the documented rules (returns dict or the string 'error')."""
    def layered(name):
        on_d, on_p = has.get(('default', name)), has.get(('p', name))
        if platform == 'default':
            return None if on_d is None else tostr(on_d)
        if on_d is None and on_p is None:
            return None                      # defined on neither platform (an empty definition IS a definition)
        out = tostr(on_d or {})
        out.update(tostr(on_p or {}))
        return out
    name = (sel or 'environment').lower()
    full_launch = False
    if name == 'environment':
        base = layered('environment')
        if base is None:
            base = dict(launch)
            full_launch = True
    elif name == 'none':
        base = {}
    else:
        base = layered(name)
        if base is None:
            return 'error', None
    env = dict(SYSVARS)
    env.update(base)
    imported = []
    if 'DEFAULTS' in env:
        for v in env['DEFAULTS'].split(':'):
            if v in launch:
                imported.append(v)
                if v not in env:
                    env[v] = launch[v]
                else:
                    env[v] = string.Template(env[v]).safe_substitute({v: launch[v]})
        env.pop('DEFAULTS')
    pre = dict(env)
    out = {}
    for k, v in pre.items():
        if not v:
            continue
        v = string.Template(v).safe_substitute(pre)          # first from the environment itself
        v = string.Template(v).safe_substitute(launch)       # then from the launch environment
        out[k] = v
    if interp:
        for k in INTERP_VARS:
            if k in launch and k not in out:
                out[k] = launch[k]
    allowed = set(SYSVARS) | set(base) | set(imported) | (set(INTERP_VARS) if interp else set())
    if full_launch:
        allowed |= set(launch)
    return out, allowed


def body(ctx):
    sel = ctx.choice('selected', [None, '', 'none', 'None', 'environment', 'Environment', 'MyEnv', 'myenv', 'ghost'])
    platform = ctx.choice('platform', ['default', 'p'])
    interp = ctx.flag('interpreter')
    has = {}
    envs = {'default': {}, 'p': {}}
    # every environment is absent, defined-but-empty, or defined with contents, independently on each platform
    nd = ctx.choice('named_on_default', ['absent', 'empty', 'full'])
    if nd != 'absent':
        e = dict(NAMED) if nd == 'full' else {}
        if nd == 'full':
            d = ctx.choice('DEFAULTS', [None, 'PATH', 'PATH:A', 'A:SECRET', 'NOPE', 'HOME:PATH', 'PATH:HOME'])
            if d is not None:
                e['DEFAULTS'] = d
            if ctx.flag('overrides_home'):
                # a second imported-and-overridden variable that PATH refers to
                e['HOME'] = '/opt/custom'
                e['PATH'] = 'mine:$HOME/bin:$PATH'
        envs['default']['MyEnv'] = e
        has[('default', 'myenv')] = e
    np_ = ctx.choice('named_on_p', ['absent', 'empty', 'full'])
    if np_ != 'absent':
        e = dict(NAMED_P) if np_ == 'full' else {}
        envs['p']['myenv'] = e
        has[('p', 'myenv')] = dict(e)
    pd = ctx.choice('pkg_on_default', ['absent', 'empty', 'full'])
    if pd != 'absent':
        e = dict(PKG) if pd == 'full' else {}
        envs['default']['environment'] = e
        has[('default', 'environment')] = dict(e)
    pp = ctx.choice('pkg_on_p', ['absent', 'empty', 'full'])
    if pp != 'absent':
        e = dict(PKG_P) if pp == 'full' else {}
        envs['p']['ENVIRONMENT'] = e
        has[('p', 'environment')] = dict(e)
    launch = {'HOME': LAUNCH['HOME']}
    for k in ('PATH', 'A', 'SECRET', 'PYTHONPATH', 'LD_LIBRARY_PATH'):
        if ctx.flag('launch_has_' + k):
            launch[k] = LAUNCH[k]
    command = {'executable': 'ls'}
    if sel is not None:
        command['environment'] = sel
    if interp:
        command['interpreter'] = 'bash'
    flowir = {'components': [{'stage': 0, 'name': 'c', 'command': command}],
              'environments': envs, 'platforms': ['default', 'p']}
    concrete = FlowIRConcrete(flowir, platform, {})
    cfg = object.__new__(conf.FlowIRExperimentConfiguration)
    cfg._concrete = concrete
    cfg._platform = platform
    cfg._system_vars = dict(SYSVARS)
    cfg._is_primitive = True
    cfg._variable_substitute = True
    cfg._suppressed_warnings = set()
    import logging
    cfg.log = logging.getLogger('verif')
    saved = os.environ
    os.environ = dict(launch)
    try:
        try:
            got = cfg.environmentForNode('stage0.c')
            err = None
        except errors.FlowIREnvironmentUnknown as e:
            got, err = None, 'error'
    finally:
        os.environ = saved
    exp, allowed = expected(sel, platform, has, None, launch, interp)
    detail = {'selected': sel, 'platform': platform, 'got': got, 'expected': exp}
    if exp == 'error':
        ctx.witness('unknown_environment_rejected')
        ctx.check(err == 'error', 'environment defined on neither platform is an error', detail)
        return 'error'
    ctx.check(err is None, 'a defined environment does not raise', detail)
    extra = sorted(set(got) - allowed)
    ctx.check(not extra, 'no undeclared launch-environment variable appears in the environment', (extra, detail))
    if (sel or '').lower() == 'none':
        ctx.witness('empty_environment')
        ctx.check(set(got) <= set(SYSVARS) | (set(INTERP_VARS) if interp else set()),
                  'the empty environment contains only the system variables', detail)
    name_l = (sel or '').lower()
    ctx.check(got == exp, 'environment equals the documented layering and expansion', detail)
    if 'SECRET' in got:
        ctx.witness('secret_imported_or_full_launch')
    if platform == 'p' and name_l in ('myenv', 'environment', '') and has.get(('p', name_l or 'environment')) == {} \
            and ('default', name_l or 'environment') not in has:
        ctx.witness('empty_environment_only_on_selected_platform')
    if 'HOME' in has.get(('default', 'myenv'), {}) and has[('default', 'myenv')].get('DEFAULTS') == 'HOME:PATH' \
            and name_l == 'myenv' and 'PATH' in launch:
        ctx.witness('imported_variable_refers_to_earlier_imported_override')
    if platform == 'p' and ('p', 'myenv') in has and ('default', 'myenv') in has and (sel or '').lower() == 'myenv':
        ctx.witness('layered_over_default')
    return sorted(got.items())


def factory(param):
    return body


def signature(param, assignment, message, detail):
    return message


def main(tier, seed, only=None):
    rep = Report('C17', tier, seed)
    rep.functions = ['conf.FlowIRExperimentConfiguration.environmentForNode', 'environmentWithName', 'defaultEnvironment',
                     'FlowIRConcrete.__init__', 'FlowIR.from_dict', 'FlowIRConcrete.get_environment',
                     'get_platform_environment', 'get_environments', 'flowir.expand_vars', 'FlowIR.fill_in']
    rep.bounds = {'selected environment': [None, '', 'none', 'None', 'environment', 'Environment', 'MyEnv', 'myenv', 'ghost'],
                  'platform': ['default', 'p'], 'presence': 'named/package environment absent, defined empty, or defined with contents, independently on the default and the selected platform',
                  'DEFAULTS': [None, 'PATH', 'PATH:A', 'A:SECRET', 'NOPE', 'HOME:PATH', 'PATH:HOME'], 'overrides': 'optionally HOME overridden and referenced by the PATH override',
                  'launch environment': 'any subset of PATH, A, SECRET, PYTHONPATH, LD_LIBRARY_PATH (+HOME)',
                  'interpreter': [False, True], 'values': 'fixed tokens with $A, ${SECRET}, $PATH, $X, empty, undefined references'}
    rep.outside = ['values other than the token set (no symbolic strings)', '%(variable)s interpolation inside environment values',
                   'DOSINI packages']
    rep.assumptions = ['os.environ replaced by the symbolic launch environment for the duration of the call',
                       'system variables are a fixed two-entry dictionary']
    rep.explanation = ('bounded symbolic execution (symx/z3) over presence/selection variables of the configuration; each path '
                       'builds a real FlowIRConcrete and calls the real environmentForNode; result compared with an independent '
                       'statement of the documented rules')
    rep.required_witnesses = ['unknown_environment_rejected', 'empty_environment', 'secret_imported_or_full_launch',
                              'layered_over_default', 'empty_environment_only_on_selected_platform',
                              'imported_variable_refers_to_earlier_imported_override']
    s = explore_parallel('environment', factory, [{'name': 'env'}], signature=signature, seed=seed, chunk=200)
    rep.add(s)
    return rep.finish()


def replay(v):
    st, msg, detail = replay_assignment(factory, v['param'], v['assignment'])
    print('replay: %s %s %s' % (st, msg, detail))
    return 1 if st == 'violation' else 0
