"""C02 -- stage outcome does not depend on the ordering of notifications (engine E1).

Real code per path: Controller.run (loop and verdict), _schedule, finalize_submit_components, finishedCheck,
postMortemCheck, _restartComponent, TransitionComponentToFinalState, _fake_finish_with_state, _stopComponents,
kill_all_components, handleError, get_nodes_in_stage, StageState.state; ComponentState.finish / state / isAlive / run /
restart; Engine.restart / kill / isAlive / exitReason / returncode / shutdown / _setExitReason; the real rx operators
(filter, observe_on with an immediate scheduler) of every subscription.

The threads are represented by a cooperative scheduler: Controller._event_scheduler.wait() and WaitOnStability() are switch
points at which the solver chooses which enabled logical-thread action runs next: a task exit (with a symbolic exit
reason), delivery of a post-mortem notification, delivery of a finished notification, completion of an asynchronous kill.
"""
import types

import networkx
import reactivex
import reactivex.scheduler

import experiment.appenv
import experiment.model.codes as codes
import experiment.runtime.control as control
import experiment.runtime.errors as rterrors
import experiment.runtime.monitor as monitor_mod
import experiment.runtime.workflow as workflow

from symx.runner import explore_parallel, Report, replay_assignment
from harness.rt_stubs import FINAL, FakeJob, HEngine, HComp, StubTracker, new_controller, Patch

FIN, FAIL, SHUT = codes.FINISHED_STATE, codes.FAILED_STATE, codes.SHUTDOWN_STATE

# name -> (components [(name, stage, attrs)], edges)
PROGRAMS = {
    'single': ([('a', 0, {})], []),
    'chain': ([('a', 0, {}), ('b', 0, {})], [('a', 'b')]),
    'fork': ([('a', 0, {}), ('b', 0, {}), ('c', 0, {})], [('a', 'b'), ('a', 'c')]),
    'join': ([('a', 0, {}), ('b', 0, {}), ('c', 0, {})], [('a', 'c'), ('b', 'c')]),
    'aggregate': ([('r0', 0, {'replicating': True}), ('r1', 0, {'replicating': True}), ('g', 0, {'aggregate': True})],
                  [('r0', 'g'), ('r1', 'g')]),
    'independent': ([('a', 0, {}), ('b', 0, {})], []),
    'diamond': ([('a', 0, {}), ('b', 0, {}), ('c', 0, {}), ('d', 0, {})], [('a', 'b'), ('a', 'c'), ('b', 'd'), ('c', 'd')]),
    'next-stage-consumer': ([('a', 0, {}), ('n', 1, {})], [('a', 'n')]),
    'side-chain': ([('a', 0, {}), ('b', 0, {}), ('d', 0, {})], [('b', 'd')]),
}
REASONS = ['Success', 'KnownIssue', 'UnknownIssue', 'ResourceExhausted']


class OutOfBound(BaseException):
    pass


class Deadlock(BaseException):
    pass


class RxProxy(object):
    def __init__(self):
        self.internal = reactivex.internal

    def __getattr__(self, n):
        return getattr(reactivex, n)

    @staticmethod
    def merge(*sources):
        return _Merged(sources, ())

    @staticmethod
    def interval(*a, **k):
        return _Never()


class _Never(object):
    def pipe(self, *ops): return self
    def subscribe(self, *a, **k): return None


class _Merged(object):
    def __init__(self, sources, ops):
        self.sources, self.ops = sources, ops

    def pipe(self, *ops):
        return _Merged(self.sources, self.ops + tuple(ops))

    def subscribe(self, on_next=None, on_error=None, on_completed=None):
        for s in self.sources:
            s.pipe(*self.ops).subscribe(on_next=on_next, on_error=on_error)


class _Pool(reactivex.scheduler.ImmediateScheduler):
    """Stands for the controller's thread pool: runs what it is given at once (the harness decides *when* it is given
    something) and counts the hand-overs so that the hand-over operator of a chain can be recognised."""
    hits = 0

    def schedule(self, action, state=None):
        self.hits += 1
        return super(_Pool, self).schedule(action, state)


class Sched(object):
    def __init__(self, ctx, max_actions, restarts):
        self.ctx = ctx
        self.max_actions = max_actions
        self.n = 0
        self.comps = {}
        self.subs = {}           # (name, kind) -> [(ops, on_next, on_error)]
        self.pm_pending = []
        self.pm_staged = {}      # name -> [per exit: [(values that passed the pre-pool operators, post-pool operators, on_next, on_error)]]
        self.fin_sent = set()
        self.running = set()     # engines with a task that has not exited yet
        self.pending_kill = set()
        self.execs = {}          # name -> [exit reasons of its executions]
        self.trace = []
        self.launch_order = []
        self.ctl = None
        self.reasons = {}        # optional restriction of the exit reasons of a component (focused programs)

    # ---- callbacks from the stubs
    def on_stagein(self, comp): pass
    def on_run_call(self, comp): pass

    def on_engine_run(self, eng):
        name = eng.job.name
        self.running.add(name)
        self.execs.setdefault(name, [])
        self.launch_order.append(name)

    def on_engine_kill(self, eng):
        self.pending_kill.add(eng.job.name)

    def on_subscribe(self, comp, kind, on_next, ops, on_error):
        self.subs.setdefault((comp.name, kind), []).append((ops, on_next, on_error))

    # ---- where in the operator chain does the hand-over to the controller pool happen?
    def split_at_pool(self, ops):
        """(operators evaluated when the value is emitted, operators evaluated when the pool delivers it).  The operator
        that hands over to ctl.controllerPool is recognised by behaviour: it is the one that calls the pool's schedule()."""
        pool = self.ctl.controllerPool
        probe = ({'state': codes.POSTMORTEM_STATE, 'isAlive': True}, types.SimpleNamespace(finishCalled=False))
        for i, o in enumerate(ops):
            before = pool.hits
            try:
                reactivex.just(probe).pipe(o).subscribe(on_next=lambda v: None, on_error=lambda e: None)
            except Exception:
                pass
            if pool.hits > before:
                return tuple(ops[:i]), tuple(ops[i + 1:])
        return (), tuple(ops)

    def stage_postmortem(self, name, emission):
        """The task has just exited: the part of every subscription's chain that precedes the pool runs now, the rest when
        the solver lets the pool deliver."""
        records = []
        for ops, on_next, on_error in list(self.subs.get((name, 'postmortem'), [])):
            pre, post = self.split_at_pool(ops)
            passed = []
            try:
                reactivex.just(emission).pipe(*pre).subscribe(on_next=passed.append, on_error=lambda e: None)
            except Exception:
                pass
            records.append((passed, post, on_next, on_error))
        self.pm_staged.setdefault(name, []).append(records)
        self.pm_pending.append(name)

    def deliver_postmortem(self, name):
        records = self.pm_staged[name].pop(0)
        for passed, post, on_next, on_error in records:
            for emission in passed:
                try:
                    reactivex.just(emission).pipe(*post).subscribe(on_next=on_next, on_error=on_error)
                except Exception:
                    pass    # report_exceptions re-raises after logging; rx would route it to on_error / swallow it

    # ---- emissions through the real rx operators
    def emit(self, name, kind, emission, once=False):
        lst = self.subs.get((name, kind), [])
        if once:
            self.subs[(name, kind)] = []
        for ops, on_next, on_error in list(lst):
            try:
                reactivex.just(emission).pipe(*ops).subscribe(on_next=on_next, on_error=on_error)
            except Exception:
                pass    # report_exceptions re-raises after logging; rx would route it to on_error / swallow it

    def enabled(self, lock_held):
        acts = []
        for name in sorted(self.comps):
            c = self.comps[name]
            if name in self.running:
                acts.append(('exit', name))
            elif name in self.pending_kill and c.engine.isAlive():
                acts.append(('kill-done', name))
        for name in self.pm_pending:
            acts.append(('postmortem', name))
        if not lock_held:
            for name in sorted(self.comps):
                c = self.comps[name]
                if name not in self.fin_sent and not c.isAlive() and self.subs.get((name, 'finished')):
                    acts.append(('finished', name))
        return acts

    def perform(self, act):
        kind, name = act
        c = self.comps[name]
        self.n += 1
        if self.n > self.max_actions:
            raise OutOfBound()
        if kind == 'exit':
            j = len(self.execs[name])
            if name in self.pending_kill:
                reason = self.ctx.choice('exit:%s:%d' % (name, j), ['Killed'] + self.reasons.get(name, REASONS))
            else:
                reason = self.ctx.choice('exit:%s:%d' % (name, j), self.reasons.get(name, REASONS))
            self.execs[name].append(reason)
            self.running.discard(name)
            self.pending_kill.discard(name)
            c.engine._setExitReason(reason)
            self.trace.append(('exit', name, reason))
            if c.state == codes.POSTMORTEM_STATE:
                self.stage_postmortem(name, ({'state': codes.POSTMORTEM_STATE, 'isAlive': True}, c))
        elif kind == 'kill-done':
            self.pending_kill.discard(name)
            c.engine._setExitReason('Killed')
            self.trace.append(('kill-done', name))
            if c.state == codes.POSTMORTEM_STATE:
                self.stage_postmortem(name, ({'state': codes.POSTMORTEM_STATE, 'isAlive': True}, c))
        elif kind == 'postmortem':
            self.pm_pending.remove(name)
            self.trace.append(('postmortem', name))
            # the emission was produced when the task exited; it is delivered whatever the state has become since
            # (the operators placed after the hand-over to the pool - on the clean tree the filter on finishCalled - run now)
            self.deliver_postmortem(name)
        elif kind == 'finished':
            self.fin_sent.add(name)
            self.trace.append(('finished', name, c.state))
            self.emit(name, 'finished', ({'state': c.state, 'isAlive': False}, c), once=True)

    def turn(self, where, lock_held):
        """One switch point: the solver picks the enabled actions that run before the interrupted thread resumes."""
        first = True
        while True:
            acts = self.enabled(lock_held)
            if not acts:
                if first and where == 'wait':
                    raise Deadlock()
                return
            opts = list(acts)
            if not (first and where == 'wait'):
                opts = [('resume', '')] + opts       # at wait() at least one thing must happen (stutter steps removed)
            act = self.ctx.choice('%s@%d' % (where, self.n), opts)
            if act[0] == 'resume':
                return
            self.perform(act)
            first = False


def build(ctx, program, sched, shutdown_on, restartable):
    comps_def, edges = PROGRAMS[program]
    g = networkx.DiGraph()
    ctl = new_controller()
    ctl.controllerPool = _Pool()
    n_stages = 1 + max(st for _, st, _ in comps_def)
    stage_state = workflow.StageState(0)
    for name, st, attrs in comps_def:
        wa = {'isRepeat': False, 'shutdownOn': list(shutdown_on), 'restartHookOn': list(restartable), 'maxRestarts': 1,
              'restartHookFile': ''}
        job = FakeJob(st, name, wa)
        job.componentSpecification.isAggregating = bool(attrs.get('aggregate'))
        job.componentSpecification.isReplicating = bool(attrs.get('replicating'))
        job.isMigrated = False
        eng = HEngine(job, on_run=sched.on_engine_run)
        eng.on_kill = sched.on_engine_kill
        comp = HComp(job, eng, sched)
        sched.comps[name] = comp
        g.add_node(job.reference, component=(lambda c=comp: c), stageIndex=st)
        if st == 0:
            stage_state.addComponentState(comp)
    for a, b in edges:
        g.add_edge(sched.comps[a].specification.reference, sched.comps[b].specification.reference)
    ctl.experiment = types.SimpleNamespace(
        experimentGraph=types.SimpleNamespace(graph=g, _placeholders={}, _documents={}),
        numStages=lambda: n_stages)
    ctl.statusDatabase = types.SimpleNamespace(monitorComponent=lambda c: None)
    ctl.currentStage = types.SimpleNamespace(index=0, name='stage0', directory='/nonexistent', jobs=lambda: [])
    ctl._stageStates = {0: stage_state}
    ctl._starting_index = 0
    ctl.completionCheck = control.DummyCompletionCheck
    ctl.generate_status_report_for_nodes = lambda components=None, filter_done=False: ''
    ctl._event_scheduler = types.SimpleNamespace(wait=lambda t=None: sched.turn('wait', False), clear=lambda: None,
                                                 set=lambda: None)
    sched.ctl = ctl
    return ctl, g, n_stages


def reference(program, execs, shutdown_on, restartable, max_restarts=1):
    """The documented rules: returns (expected state per component or None if it never runs in this stage, unrecoverable?)."""
    comps_def, edges = PROGRAMS[program]
    preds = {n: [a for a, b in edges if b == n] for n, _, _ in comps_def}
    attrs = {n: a for n, _, a in comps_def}
    state = {}
    unrecoverable = False
    missing = []
    for name, st, a in comps_def:         # definition order is a topological order
        ps = [state[p] for p in preds[name]]
        if any(s == FAIL for s in ps):
            state[name] = SHUT
            continue
        if preds[name]:
            if a.get('aggregate'):
                rep = [state[p] for p in preds[name] if attrs[p].get('replicating')]
                non = [state[p] for p in preds[name] if not attrs[p].get('replicating')]
                if any(s == SHUT for s in non) or (rep and all(s == SHUT for s in rep)):
                    state[name] = SHUT
                    continue
            elif any(s == SHUT for s in ps):
                state[name] = SHUT
                continue
        rs = execs.get(name)
        if not rs:
            missing.append(name)
            state[name] = None
            continue
        used = 0
        pending_restart = False
        for idx, r in enumerate(rs):
            if r in restartable and used < max_restarts:
                used += 1
                pending_restart = idx == len(rs) - 1
        if pending_restart or rs[-1] == 'Killed':
            # the last execution would have been restarted, or was killed by the controller: the only admissible
            # outcome is shut down (the stage is stopping for another reason)
            state[name] = 'stopped'
            continue
        final = rs[-1]
        if final == 'Success':
            state[name] = FIN
        elif final in shutdown_on:
            state[name] = SHUT
        else:
            state[name] = FAIL
            unrecoverable = True
    return state, unrecoverable, missing


def make_body(program, max_actions, with_restarts, reasons=None):
    def body(ctx):
        shutdown_on = ['KnownIssue'] if (not reasons and ctx.flag('shutdownOn_KnownIssue')) else []
        restartable = ['ResourceExhausted'] if with_restarts else []
        sched = Sched(ctx, max_actions, with_restarts)
        sched.reasons = reasons or {}
        ctl, g, n_stages = build(ctx, program, sched, shutdown_on, restartable)
        tracker = StubTracker(lambda: True)

        def wait_on_stability(duration, checkPeriod=30, stableInterval=30):
            sched.turn('stability', True)
            return True
        outcome = None
        with Patch() as p:
            p.set(control, 'reactivex', RxProxy())
            p.set(control, 'time', types.SimpleNamespace(sleep=lambda s: None))
            p.set(control, 'WaitOnStability', wait_on_stability)
            p.set(monitor_mod.MonitorExceptionTracker, 'defaultTracker', classmethod(lambda cls: tracker))
            hc = types.SimpleNamespace(handleMigration=lambda spec, exp: None)
            p.set(experiment.appenv.HybridConfiguration, 'defaultConfiguration', classmethod(lambda cls: hc))
            try:
                ctl.run()
                outcome = 'returned'
            except rterrors.UnexpectedJobFailureError:
                outcome = 'UnexpectedJobFailureError'
            except rterrors.FinalStageNoFinishedLeafComponents:
                outcome = 'FinalStageNoFinishedLeafComponents'
            except OutOfBound:
                return 'bound'
            except Deadlock:
                outcome = 'deadlock'
        comps_def, edges = PROGRAMS[program]
        states = {n: sched.comps[n].state for n, st, _ in comps_def}
        detail = {'program': program, 'shutdownOn': shutdown_on, 'trace': sched.trace, 'executions': sched.execs, 'states': states,
                  'outcome': outcome}
        ctx.check(outcome != 'deadlock', 'the stage loop terminates (no ordering leaves it waiting forever)', detail)
        ctx.witness('run_terminated')
        stage0 = [n for n, st, _ in comps_def if st == 0]
        for n in stage0:
            ctx.check(states[n] in FINAL, 'every component of the stage ends in exactly one final state', (n, detail))
        # a restart keeps only the last exit reason of a restartable chain: executions that were restarted are not final
        want, unrecoverable, missing = reference(program, sched.execs, shutdown_on, restartable)
        if not unrecoverable:
            ctx.witness('no_unrecoverable_exit')
            for n in stage0:
                ok = states[n] == want[n] or (want[n] == 'stopped' and states[n] == SHUT)
                ctx.check(ok, 'final state is the one given by the documented rules, whatever the ordering',
                          (n, states[n], want[n], detail))
            stage_state = ctl._stageStates[0].state
            if n_stages == 1 and not any(states[n] == FIN and not list(g.successors(sched.comps[n].specification.reference)) for n in stage0):
                ctx.check(outcome == 'FinalStageNoFinishedLeafComponents', 'a final stage without a finished leaf is reported as failed', detail)
            else:
                ctx.check(outcome == 'returned', 'a stage without unrecoverable exits completes normally', detail)
        else:
            ctx.witness('unrecoverable_exit')
            ctx.check(any(states[n] == FAIL for n in stage0), 'an unrecoverable exit leaves at least one failed component', detail)
            ctx.check(outcome == 'UnexpectedJobFailureError', 'the stage containing a failed component is reported as failed', detail)
            ctx.check(ctl._stageStates[0].state == FAIL, 'the stage state is failed', (ctl._stageStates[0].state, detail))
            for n in stage0:
                ctx.check(states[n] == SHUT or want[n] is None or states[n] == want[n],
                          'every other component ends in its rule-given state or shut down (only an unrecoverable exit fails a component)',
                          (n, states[n], want[n], detail))
        return (outcome, tuple(sorted(states.items())))
    return body


def factory(param):
    return make_body(param['program'], param['max_actions'], param['restarts'], param.get('reasons'))


def signature(param, assignment, message, detail):
    return '%s|%s' % (param['program'], message)


def main(tier, seed, only=None):
    rep = Report('C02', tier, seed)
    quick = tier == 'quick'
    max_actions = 14 if quick else 22
    max_paths = 480000 if quick else 10000000
    rep.functions = ['control.Controller.run', '_schedule', 'finalize_submit_components', 'finishedCheck', 'postMortemCheck',
                     '_restartComponent', 'TransitionComponentToFinalState', '_fake_finish_with_state', '_stopComponents',
                     'kill_all_components', 'handleError', '_handleMigration', 'get_nodes_in_stage', 'workflow.StageState.state',
                     'workflow.ComponentState.finish/state/isAlive/run/restart', 'engine.Engine.restart/kill/isAlive/exitReason/'
                     'returncode/shutdown/_setExitReason', 'rx operators of every subscription (filter, observe_on on an immediate scheduler)']
    progs = ['single', 'chain', 'fork', 'join', 'aggregate', 'independent', 'next-stage-consumer', 'side-chain'] + ([] if quick else ['diamond'])
    rep.bounds = {'programs': progs, 'exit reason of every task execution': REASONS + ['Killed (after a kill request)'],
                  'shutdownOn': 'empty or [KnownIssue]', 'restarts': 'quick: none except programs independent+restarts and chain+restarts; thorough: ResourceExhausted restartable once everywhere',
                  'logical-thread actions per run': max_actions, 'switch points': ['Controller._event_scheduler.wait', 'WaitOnStability (comp_lock held)'],
                  'max_paths': max_paths}
    rep.outside = ['real threads and preemption at arbitrary bytecodes (switch points are the two blocking calls)', 'rx timing operators',
                   'DoWhile growth during the stage', 'optimizer', 'completionCheck hooks', 'repeating components (see C13)']
    rep.assumptions = ['each notification is delivered exactly once, in any order; notifyFinished only after the component is not alive', 'operators placed before the hand-over to controllerPool in a post-mortem subscription run when the task exits, those after it when the solver lets the pool deliver (the hand-over operator is recognised by its call to the pool)',
                       'Engine.run replaced by a recorder; a kill lands as exit reason Killed at a later, solver-chosen step',
                       'system stability always reported stable', 'stutter steps (a wait() that times out with nothing happening) are skipped']
    rep.explanation = ('bounded symbolic execution (symx/z3) with a cooperative scheduler: which enabled logical-thread action runs at each '
                       'switch point and the exit reason of every execution are solver variables; the reference outcome is computed from '
                       'the DAG and the exit reasons by the documented rules')
    rep.required_witnesses = ['run_terminated', 'no_unrecoverable_exit', 'unrecoverable_exit']
    params = [{'program': pr, 'max_actions': max_actions, 'restarts': not quick, 'name': pr} for pr in progs]
    if quick:
        # restartable exits (ResourceExhausted, one restart) on the two smallest concurrent programs
        params += [{'program': pr, 'max_actions': max_actions, 'restarts': True, 'name': pr + '+restarts'} for pr in ('independent', 'chain')]
    # a restartable exit of one component racing with the failure of an independent one, every interleaving (two exit reasons each)
    params.append({'program': 'independent', 'max_actions': max_actions, 'restarts': True, 'name': 'independent+restarts/focused',
                   'reasons': {'a': ['ResourceExhausted', 'Success'], 'b': ['UnknownIssue', 'Success']}})
    if only:
        params = [p for p in params if p['name'] in only]
    s = explore_parallel('orderings', factory, params, signature=signature, seed=seed, chunk=300, max_paths=max_paths,
                         validate=False, per_param_max=max_paths // len(params))
    rep.add(s)
    return rep.finish()


def replay(v):
    st, msg, detail = replay_assignment(factory, v['param'], v['assignment'])
    print('replay: %s %s %s' % (st, msg, str(detail)[:3000]))
    return 1 if st == 'violation' else 0
