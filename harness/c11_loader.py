"""C11 -- a workflow that loads is structurally executable; a broken one is rejected (engine E1, reduced scope).

Real code per path: ExperimentPackage.packageFromLocation + WorkflowGraph.graphFromPackage(primitive=False) with
validation on (FlowIRExperimentConfiguration._initialize / _try_report_errors, validate_object_schema and the type_*
schemas, FlowIR.validate / validate_component / validate_references, FlowIRConcrete.validate, replicate,
_createCompleteGraph), then configurationForNode for every node and ComponentSpecification.checkDataReferences.
Symbolic: presence of optional blocks in the base document and a single fault (kind and position).
"""
import copy
import os
import shutil
import signal
import tempfile

import networkx
import yaml

import experiment.model.errors as errors
import experiment.model.graph as graph
import experiment.model.storage as storage
from experiment.model.frontends.flowir import FlowIR

from symx.runner import explore_parallel, Report, replay_assignment


def base_document(ctx):
    repl = ctx.flag('with_replication')
    plat = ctx.flag('with_platform_override')
    third = ctx.flag('with_third_stage')
    comps = [
        {'stage': 0, 'name': 'src', 'command': {'executable': 'echo', 'arguments': '%(msg)s'},
         'workflowAttributes': ({'replicate': '%(n)s'} if repl else {})},
        {'stage': 0, 'name': 'work', 'command': {'executable': 'echo', 'arguments': 'src:ref -x'}, 'references': ['src:ref'],
         'resourceRequest': {'numberProcesses': 2, 'numberThreads': 1}, 'workflowAttributes': {'maxRestarts': 2, 'shutdownOn': ['KnownIssue']}},
        {'stage': 1, 'name': 'agg', 'command': {'executable': 'echo', 'arguments': 'stage0.work:ref'},
         'references': ['stage0.work:ref'], 'workflowAttributes': ({'aggregate': True} if repl else {})},
        {'stage': 1, 'name': 'tail', 'command': {'executable': 'echo', 'arguments': 'agg:ref %(msg)s', 'resolvePath': False},
         'references': ['agg:ref']},
    ]
    if plat:
        comps[3]['override'] = {'p': {'command': {'arguments': 'agg:ref on-p'}}}
    if third:
        comps.append({'stage': 2, 'name': 'last', 'command': {'executable': 'echo', 'arguments': 'stage1.tail:ref stage0.work:ref'},
                      'references': ['stage1.tail:ref', 'stage0.work:ref'],
                      'workflowAttributes': ({'aggregate': True} if repl else {})})
    # every component builds a private variable out of another private one (no other scope defines `mode`)
    for i, c in enumerate(comps):
        c['variables'] = {'mode': 'mode-%d' % i, 'label': '%s-%%(mode)s' % c['name']}
        c['command']['arguments'] += ' %(label)s'
    doc = {'platforms': ['default', 'p'] if plat else ['default'],
           'variables': {'default': {'global': {'n': 2, 'msg': 'hello'}}},
           'components': comps}
    if plat:
        doc['variables']['p'] = {'global': {'msg': 'on-p'}}
    return doc


def option_paths(doc, platform='default'):
    """All (component index, key path) of scalar options inside components (the schema paths a fault can hit)."""
    out = []

    def walk(ci, obj, path):
        for k, v in obj.items():
            if k in ('name', 'stage', 'variables', 'override', 'references'):
                continue
            if isinstance(v, dict):
                walk(ci, v, path + [k])
            else:
                out.append((ci, path + [k]))
    for ci, c in enumerate(doc['components']):
        walk(ci, c, [])
    # an option that the selected platform's override replaces is not part of the resolved component: outside the claim
    def overridden(ci, path):
        cur = doc['components'][ci].get('override', {}).get(platform, {})
        for p_ in path:
            if not isinstance(cur, dict) or p_ not in cur:
                return False
            cur = cur[p_]
        return True
    return [(ci, path) for ci, path in out if not overridden(ci, path)]


def get_at(comp, path):
    cur = comp
    for p in path[:-1]:
        cur = cur[p]
    return cur, path[-1]


FAULTS = ['none', 'drop_component', 'retarget_reference', 'back_edge_same_stage', 'self_reference', 'duplicate_component',
          'misspell_option_key', 'unknown_section', 'mistype_option', 'undefined_variable', 'reference_to_later_stage']


def inject(ctx, doc, fault, platform='default'):
    comps = doc['components']
    if fault == 'drop_component':
        # drop a component that somebody consumes from
        idx = ctx.choice('dropped', [0, 1, 2])
        victim = comps[idx]['name']
        del comps[idx]
        return 'dropped %s' % victim
    if fault == 'retarget_reference':
        idx = ctx.choice('consumer', [i for i, c in enumerate(comps) if c.get('references')])
        c = comps[idx]
        old = c['references'][0]
        new = old.replace(FlowIR.ParseDataReferenceFull(old, c['stage'])[1], 'ghost')
        c['references'][0] = new
        c['command']['arguments'] = c['command']['arguments'].replace(old, new)
        return 'retargeted %s -> %s' % (old, new)
    if fault == 'back_edge_same_stage':
        comps[0]['references'] = ['work:ref']
        comps[0]['command']['arguments'] = 'work:ref'
        return 'src consumes work (cycle)'
    if fault == 'self_reference':
        idx = ctx.choice('component', list(range(len(comps))))
        c = comps[idx]
        c.setdefault('references', []).append('stage%d.%s:ref' % (c['stage'], c['name']))
        c['command']['arguments'] += ' stage%d.%s:ref' % (c['stage'], c['name'])
        return 'self reference on %s' % c['name']
    if fault == 'duplicate_component':
        idx = ctx.choice('component', list(range(len(comps))))
        comps.append(copy.deepcopy(comps[idx]))
        return 'duplicated %s' % comps[idx]['name']
    if fault == 'misspell_option_key':
        paths = option_paths(doc)
        ci, path = paths[ctx.choice('position', list(range(len(paths))))]
        parent, key = get_at(comps[ci], path)
        parent[key + 'x'] = parent.pop(key)
        return 'misspelt %s.%s' % (comps[ci]['name'], '.'.join(path))
    if fault == 'unknown_section':
        idx = ctx.choice('component', list(range(len(comps))))
        comps[idx]['resourceRequests'] = {'numberProcesses': 1}
        return 'unknown section on %s' % comps[idx]['name']
    if fault == 'mistype_option':
        paths = option_paths(doc, platform)
        ci, path = paths[ctx.choice('position', list(range(len(paths))))]
        parent, key = get_at(comps[ci], path)
        v = parent[key]
        declared_int = path[-1] in ('numberProcesses', 'numberThreads', 'maxRestarts', 'replicate')
        if isinstance(v, bool):
            repl = ctx.choice('wrong_value', ['maybe', 3])
        elif isinstance(v, int) or declared_int:
            repl = ctx.choice('wrong_value', ['many', [1], True])
        elif isinstance(v, list):
            repl = ctx.choice('wrong_value', [{'a': 'dict'}, 7])
        else:
            # string-typed options accept any YAML scalar; containers are the wrong type
            repl = ctx.choice('wrong_value', [['a', 'list'], {'a': 'dict'}])
        parent[key] = repl
        return 'mistyped %s.%s = %r (was %r)' % (comps[ci]['name'], '.'.join(path), repl, v)
    if fault == 'undefined_variable':
        which = ctx.choice('variable', ['msg', 'n', 'new', 'private'])
        if which == 'private':
            # remove `mode` from the only scope that defines it for one component (its siblings still define their own)
            idx = ctx.choice('component', list(range(len(comps))))
            del comps[idx]['variables']['mode']
            return 'undefined private variable mode of %s' % comps[idx]['name']
        if which == 'new':
            comps[1]['command']['arguments'] += ' %(undefined_anywhere)s'
        else:
            del doc['variables']['default']['global'][which]
            if 'p' in doc['variables']:
                doc['variables']['p']['global'].pop(which, None)
            if which == 'n' and 'replicate' not in comps[0].get('workflowAttributes', {}):
                comps[1]['command']['arguments'] += ' %(n)s'
        return 'undefined variable %s' % which
    if fault == 'reference_to_later_stage':
        comps[1]['references'].append('stage1.tail:ref')
        comps[1]['command']['arguments'] += ' stage1.tail:ref'
        return 'work consumes stage1.tail (cycle across stages)'
    return 'none'


class _Timeout(Exception):
    pass


def load(doc, platform, route='package'):
    if route == 'memory':
        # the in-memory route of the public API (validation is on by default)
        def on_alarm(sig, frm):
            raise _Timeout()
        old = signal.signal(signal.SIGALRM, on_alarm)
        signal.alarm(20)
        try:
            g = graph.WorkflowGraph.graphFromFlowIR(copy.deepcopy(doc), manifest={}, documents=None, platform=platform, primitive=False)
            return g, None
        except _Timeout:
            return None, 'hang'
        except BaseException as e:
            if isinstance(e, (KeyboardInterrupt, SystemExit)):
                raise
            return None, e
        finally:
            signal.alarm(0)
            signal.signal(signal.SIGALRM, old)
    d = tempfile.mkdtemp(prefix='verif-c11-')
    try:
        os.makedirs(os.path.join(d, 'conf'))
        with open(os.path.join(d, 'conf', 'flowir_package.yaml'), 'w') as f:
            yaml.safe_dump(doc, f)

        def on_alarm(sig, frm):
            raise _Timeout()
        old = signal.signal(signal.SIGALRM, on_alarm)
        signal.alarm(20)
        try:
            pkg = storage.ExperimentPackage.packageFromLocation(d, platform=platform)
            g = graph.WorkflowGraph.graphFromPackage(pkg, platform=platform, primitive=False, createInstanceConfiguration=False)
            return g, None
        except _Timeout:
            return None, 'hang'
        except BaseException as e:
            if isinstance(e, (KeyboardInterrupt, SystemExit)):
                raise
            return None, e
        finally:
            signal.alarm(0)
            signal.signal(signal.SIGALRM, old)
    finally:
        shutil.rmtree(d, ignore_errors=True)


def body(ctx):
    doc = base_document(ctx)
    platform = ctx.choice('platform', ['default', 'p']) if 'p' in doc['platforms'] else 'default'
    fault = ctx.choice('fault', FAULTS)
    what = inject(ctx, doc, fault, platform)
    route = ctx.choice('route', ['package', 'memory'])
    g, err = load(doc, platform, route)
    detail = {'fault': fault, 'what': what, 'platform': platform, 'route': route, 'error': (type(err).__name__ + ': ' + str(err)[:300]) if
              isinstance(err, BaseException) else err}
    if fault == 'none':
        ctx.check(err is None, 'a well-formed workflow loads', detail)
    if err is None:
        # soundness: whatever loads is structurally executable
        G = g.graph
        ctx.check(networkx.is_directed_acyclic_graph(G), 'the expanded graph is acyclic', detail)
        nodes = list(G.nodes)
        ctx.check(len(nodes) == len(set(nodes)), 'component identifiers are unique', detail)
        for n in nodes:
            try:
                conf = g.configurationForNode(n, raw=False)
                cerr = None
            except Exception as e:
                conf, cerr = None, e
            ctx.check(cerr is None, 'the configuration of every component resolves', (n, repr(cerr), detail))
            for r in conf.get('references', []):
                st, prod, fn, m = FlowIR.ParseDataReferenceFull(r, conf['stage'])
                if st is not None:
                    ctx.check('stage%d.%s' % (st, prod) in G.nodes or 'stage%d.%s' % (st, prod) in g._placeholders,
                              'every component reference points to an existing component', (n, r, detail))
        ctx.witness('loaded_graph_checked')
        # completeness: a broken workflow must not load
        ctx.check(fault == 'none', 'a workflow with a %s fault is rejected' % fault, detail)
        return ('loaded', fault)
    ctx.witness('rejected')
    ctx.check(err != 'hang', 'a broken workflow is rejected, not left hanging', detail)
    ctx.check(isinstance(err, errors.ExperimentInvalidConfigurationError),
              'a broken workflow is rejected with an invalid-configuration error, not another exception type', detail)
    return ('rejected', fault)


def factory(param):
    return body


def signature(param, assignment, message, detail):
    d = detail
    while isinstance(d, (list, tuple)) and d:
        d = d[-1]
    d = d if isinstance(d, dict) else {}
    what = d.get('what', '')
    extra = ''
    if d.get('fault') == 'mistype_option':
        extra = '|bool-for-int=%s' % ('= True (was' in what)
    return '%s|fault=%s%s' % (message, d.get('fault'), extra)


def main(tier, seed, only=None):
    rep = Report('C11', tier, seed)
    rep.functions = ['storage.ExperimentPackage.packageFromLocation', 'graph.WorkflowGraph.graphFromPackage', 'graph.WorkflowGraph.graphFromFlowIR (in-memory route, primitive=False)', 'FlowIR.apply_replicate', 'FlowIRConcrete.instance', 'conf.FlowIRExperimentConfiguration.'
                     '__init__/_initialize/_try_report_errors', 'flowir.validate_object_schema + type_* schemas', 'FlowIR.validate/'
                     'validate_component/validate_references', 'FlowIRConcrete.validate/replicate', 'WorkflowGraph._createCompleteGraph/'
                     'configurationForNode', 'flowir.package_document_load']
    rep.bounds = {'base documents': '2-3 stages, 4-5 components; symbolic presence of replication, a platform override, a third stage; both platforms',
                  'routes': ['package on disk (packageFromLocation + graphFromPackage)', 'in memory (graphFromFlowIR, replicated)'], 'faults': FAULTS, 'undefined variable': 'global msg / n removed, a new undefined reference, or the private variable of one component removed (siblings keep theirs)', 'fault position': 'every option path of every component (misspell / mistype), every component (duplicate, self reference), '
                                                      'every consumed component (drop), every consumer (retarget)'}
    rep.outside = ['options replaced by the override of the selected platform', 'string-typed options given as numbers (any YAML scalar is accepted by design)', 'DOSINI, CWL and DSL front ends', 'faults in DoWhile/Workflow documents', 'more than one fault per document',
                   'instance directories (is_instance=True)']
    rep.assumptions = ['each path writes one concrete package to a scratch directory and loads it with the real loader (20 s alarm = hang)',
                       'the solver chooses the base-document shape, the fault kind and its position']
    rep.explanation = ('bounded symbolic execution (symx/z3) over document shape x single fault (kind, position, wrong value); the real loader runs '
                       'on every path; soundness checked on everything that loads, completeness on every injected fault')
    rep.required_witnesses = ['loaded_graph_checked', 'rejected']
    s = explore_parallel('single-fault', factory, [{'name': 'faults'}], signature=signature, seed=seed, chunk=40, validate=False)
    rep.add(s)
    return rep.finish()


def replay(v):
    st, msg, detail = replay_assignment(factory, v['param'], v['assignment'])
    print('replay: %s %s %s' % (st, msg, str(detail)[:2000]))
    return 1 if st == 'violation' else 0
