"""C09 -- data references parse, print and classify consistently (engine E2: CrossHair)."""
import re

from symx.runner import Report
from symx.xh import run_e2


def key(name, call):
    m = re.search(r"\((.*)\)$", call)
    arg = m.group(1) if m else ''
    if name.startswith('_c09_manifest'):
        return '%s|nested-key=%s' % (name, '/' in arg)
    if name == '_c09_relative_equals_absolute_stage_like':
        return '%s|dot-in-suffix=%s' % (name, '.' in arg)
    return '%s|%s' % (name, arg)


def main(tier, seed, only=None):
    rep = Report('C09', tier, seed)
    timeout = 40 if tier == 'quick' else 600
    rep.functions = ['FlowIR.ParseDataReference', 'ParseProducerReference', 'ParseDataReferenceFull', 'compile_reference',
                     'is_datareference_to_component', 'expand_potential_component_reference', 'expand_component_references',
                     'application_dependency_to_name', 'Manifest.__init__/top_level_folders',
                     'graph.DataReference.__init__/absoluteReference/relativeReference', 'graph.ComponentIdentifier.identifier/to_uid']
    rep.bounds = {'symbolic string per condition': 'producer name / file path <= 3 printable ASCII characters, manifest key <= 4',
                  'concrete representatives': 'stages {0,1,2,10}, methods ref/copy/output/loopref/link, files None, f, d/f.txt',
                  'per_condition_timeout_s': timeout}
    rep.outside = ['strings longer than the bound', 'non-ASCII / control characters', 'names beginning with "stage" other than the '
                   'stage-like condition', 'Windows separators']
    rep.assumptions = ['CrossHair\'s model of str/re (counterexamples are replayed natively before being reported)',
                       'one symbolic string against concrete representatives (names interact only through equality with each '
                       'other and with the delimiters : / . # %)']
    rep.explanation = ('CrossHair (z3) symbolic execution of PEP316 contracts wrapping the real parsing/printing functions; '
                       'characters of the strings are solver variables; every counterexample is replayed on the real code; '
                       'a native sweep over an 8-letter alphabet backs each contract (sanity net, not the deciding step)')
    import harness.xh.c09_contracts as C
    run_e2(rep, 'harness.xh.c09_contracts', timeout, names=only, sweep=C.sweep, key=key)
    return rep.finish()


def replay(v):
    import harness.xh.c09_contracts as C
    from symx.xh import replay_call
    bad, outcome = replay_call(C, v['call'])
    print('replay: %s -> %s (%s)' % (v['call'], 'VIOLATION' if bad else 'holds', outcome))
    return 1 if bad else 0
