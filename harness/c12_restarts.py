"""C12 -- task restarts stay within the configured policy (engine E1).

Real code executed per path: Controller.postMortemCheck -> _restartComponent ->
(_unstableSystemRestart) -> ComponentState.restart -> Engine.restart /
RepeatingEngine.restart, Engine._setExitReason, TransitionComponentToFinalState,
ComponentState.finish, Engine.shutdown, engine.DLMESORestart.
"""
import threading
import datetime
import types

import experiment.model.codes as codes
import experiment.model.hooks
import experiment.runtime.control as control
import experiment.runtime.engine as engine_mod
import experiment.runtime.monitor as monitor_mod

from symx.runner import explore_parallel, Report, replay_assignment
from harness.rt_stubs import (REASONS, FINAL, LazyMembership, FakeJob, HEngine, HComp, StubTracker,
                              new_controller, Patch)

HOOK_OUTCOMES = ['RestartContextRestartPossible', 'RestartContextHookNotAvailable',
                 'RestartContextRestartNotRequired', 'RestartContextRestartNotPossible',
                 'RestartContextHookFailed', 'RestartContextRestartConditionsNotMet',
                 True, False, 'raise-IOError', 'raise-Exception', 'junk', None]
HOOK_REPR = ['RestartContextRestartPossible', 'RestartContextRestartNotRequired', 'raise-Exception']
ALLOWED_RHO = [r for r in REASONS if r not in ('Killed', 'Cancelled')]


class LazyAttrs(dict):
    """workflowAttributes whose policy entries are decided on first read."""

    def __init__(self, ctx, base):
        dict.__init__(self, base)
        self.ctx = ctx
        self.lazy = {}
        self.read = {}

    def _lazy(self, k):
        if k not in self.read:
            self.read[k] = self.lazy[k]()
        return self.read[k]

    def get(self, k, d=None):
        if k in self.lazy:
            return self._lazy(k)
        return dict.get(self, k, d)

    def __getitem__(self, k):
        if k in self.lazy:
            return self._lazy(k)
        return dict.__getitem__(self, k)


class LazyJob(FakeJob):
    @property
    def type(self):
        if '_type' not in self.__dict__:
            self.__dict__['_type'] = self._ctx.choice('backend', ['local', 'simulator'])
        return self.__dict__['_type']

    @type.setter
    def type(self, v):
        pass


class LazyCustom(dict):
    def __init__(self, ctx):
        dict.__init__(self)
        self.ctx = ctx
        self.val = None

    def get(self, k, d=None):
        if k == 'sim_restart':
            if self.val is None:
                self.val = self.ctx.choice('sim_restart', ['yes', 'no'])
            return self.val
        return d


def make_policy(ctx, job):
    wa = LazyAttrs(ctx, job.workflowAttributes)
    rho = LazyMembership(ctx, 'restartHookOn', ALLOWED_RHO)
    sdo = LazyMembership(ctx, 'shutdownOn', REASONS)
    wa.lazy['maxRestarts'] = lambda: ctx.choice('maxRestarts', [None, -1, 0, 1, 2, 3])
    wa.lazy['restartHookFile'] = lambda: ctx.choice('restartHookFile', [None, '', 'hook.py'])
    wa.lazy['restartHookOn'] = lambda: rho
    wa.lazy['shutdownOn'] = lambda: sdo
    job.workflowAttributes = wa
    job.componentSpecification.workflowAttributes = wa
    return wa, rho, sdo


def effective_max(wa):
    if 'maxRestarts' not in wa.read:
        return None   # never consulted
    m = wa.read['maxRestarts']
    if m is None:
        hf = wa.read.get('restartHookFile', 'unread')
        if hf == 'unread':
            hf = wa._lazy('restartHookFile')
        return -1 if hf else 3
    return m


_PIPE = {}


def lifted_pipeline():
    """The stage functions of the launch pipeline, lifted from the AST of the real Engine.run on every run: the nested
    functions of run() compiled as closures over `self`, and the order in which run() maps them over the launch / wait
    observables (InitPerformanceInfo, LaunchTask, SetLaunchTime | Wait, FinalisePerformanceInfo -> HandleTaskExit)."""
    if 'make' in _PIPE:
        return _PIPE
    import ast
    import inspect
    import textwrap
    fn = ast.parse(textwrap.dedent(inspect.getsource(engine_mod.Engine.run))).body[0]
    defs = [n for n in fn.body if isinstance(n, ast.FunctionDef)]
    names = {d.name for d in defs}
    groups = []
    for st in fn.body:
        maps = sorted(((c.lineno, c.col_offset, c.args[0].id) for c in ast.walk(st)
                       if isinstance(c, ast.Call) and isinstance(c.func, ast.Attribute) and c.func.attr == 'map'
                       and c.args and isinstance(c.args[0], ast.Name) and c.args[0].id in names))
        if maps and not isinstance(st, ast.FunctionDef):
            groups.append([m[2] for m in maps])
    if len(groups) < 2 or 'LaunchTask' not in groups[0] or 'Wait' not in groups[1] or 'HandleTaskExit' not in names:
        raise RuntimeError('cannot lift the launch pipeline of Engine.run (its structure changed): %r' % groups)
    wrapper = ast.FunctionDef(name='_stages', args=ast.arguments(posonlyargs=[], args=[ast.arg(arg='self')], kwonlyargs=[], kw_defaults=[],
                                                                 defaults=[]),
                              body=defs + [ast.Return(value=ast.Call(func=ast.Name(id='locals', ctx=ast.Load()), args=[], keywords=[]))],
                              decorator_list=[], type_params=[])
    mod = ast.Module(body=[wrapper], type_ignores=[])
    ast.fix_missing_locations(mod)
    ns = {}
    exec(compile(mod, '<Engine.run stages>', 'exec'), vars(engine_mod), ns)
    _PIPE.update(make=ns['_stages'], launch=groups[0], wait=groups[1])
    return _PIPE


class _PerfMatrix(object):
    def addElements(self, *a, **k): pass
    def removeRows(self, *a, **k): pass
    def setElements(self, *a, **k): pass
    def csvRepresentation(self): return ''


class PEngine(HEngine):
    """HEngine whose run() and task exit go through the real stage functions of Engine.run (lifted), so that whatever those
    stages do to the restart / resubmission book-keeping is on the path.  `launcher(engine)` returns the task or raises."""

    def __init__(self, job, launcher):
        HEngine.__init__(self, job)
        self.performanceHeaders = []
        self.performanceMatrix = _PerfMatrix()
        self.taskGenerator = lambda j: launcher(self)
        self._emission = None
        self._taskLaunched = None
        self._taskFinished = None
        if not hasattr(job, 'workingDirectory'):
            job.workingDirectory = types.SimpleNamespace(path='/nonexistent/verif/wd')

    def compute_task_events(self, process):
        return {}

    def run(self, startObservable=None):
        # run()/restart() return before anything is launched (the real pipeline waits ENGINE_LAUNCH_DELAY_SECONDS on another
        # thread): the launch stages run when the harness lets the launch happen - or never, if a kill lands in that window
        HEngine.run(self, startObservable)
        self._launch_pending = True

    def launch_now(self):
        if not getattr(self, '_launch_pending', False):
            return
        self._launch_pending = False
        pipe = lifted_pipeline()
        st = pipe['make'](self)
        em = None
        for name in pipe['launch']:
            em = st[name](em)
        if self._taskLaunched is not None and em.get('process') is not None:
            self._taskLaunched -= datetime.timedelta(seconds=1)     # a non-zero run time for the performance columns
        self._emission = em

    def killed_before_launch(self):
        # the launch pipeline ends in HandleTaskObservableException -> _setExitReason(Killed); engine.process is whatever
        # run()/restart() left behind
        self._launch_pending = False
        self._setExitReason('Killed')

    def task_exits(self, reason=None):
        """The launched task exits with `reason` (or the launch itself had failed: reason comes from the emission)."""
        pipe = lifted_pipeline()
        st = pipe['make'](self)
        em = self._emission
        if em.get('process') is not None:
            em['process'].exitReason = reason
            em['process'].returncode = 0 if reason == 'Success' else 1
        for name in pipe['wait']:
            em = st[name](em)
        st['HandleTaskExit'](em)
        return self.exitReason()


def body_engine(L, reasons=REASONS, narrow=False, launch_failures=False):
    def body(ctx):
        job = LazyJob(0, 'A')
        job._ctx = ctx
        job.customAttributes = LazyCustom(ctx)
        wa, rho, sdo = make_policy(ctx, job)
        if narrow:
            wa.lazy['maxRestarts'] = lambda: ctx.choice('maxRestarts', [None, -1, 1] if not launch_failures else [None, 1])
            wa.lazy['restartHookFile'] = lambda: ctx.choice('restartHookFile', [None, ''] if not launch_failures else [None])
        launches = []

        def launcher(e):
            # the backend accepts the task, or the submission itself fails (the two ways a SubmissionFailed comes about)
            # (the two exceptions take different except-branches of LaunchTask: they alternate by launch index to keep the tree small)
            how = ctx.choice('launch%d' % len(launches), ['task', 'JobLaunchError' if len(launches) % 2 == 0 else 'OSError'] if launch_failures else ['task'])
            launches.append(how)
            if how == 'JobLaunchError':
                raise _launch_error()
            if how == 'OSError':
                raise OSError('stub: file system inconsistency')
            return _StubProc(None)
        eng = PEngine(job, launcher)
        comp = HComp(job, eng)
        ctl = new_controller()
        hook_calls = []

        def hook(workingDirectory, restarts, componentName, log, exitReason, exitCode):
            out = ctx.choice('hook%d' % len(hook_calls), HOOK_OUTCOMES if not (hook_calls or narrow) else HOOK_REPR)
            hook_calls.append(out)
            if out == 'raise-IOError':
                raise IOError('stub')
            if out == 'raise-Exception':
                raise RuntimeError('stub')
            return out

        imp = []

        def import_hook(hooks_dir, hook_file='restart.py'):
            if not imp:
                imp.append(ctx.flag('hook_importable'))
            if imp[0]:
                return types.SimpleNamespace(Restart=hook)
            raise ImportError('stub')

        tracker = UnstableFor(ctx, (0, 6) if narrow else (0, 1, 6))
        with Patch() as p:
            p.set(experiment.model.hooks, 'import_hooks_restart', import_hook)
            p.set(control, 'time', types.SimpleNamespace(sleep=lambda s: None))
            p.set(monitor_mod.MonitorExceptionTracker, 'defaultTracker', classmethod(lambda cls: tracker))
            comp.run()
            ctx.check(eng.run_calls == 1, 'initial run starts the engine exactly once')
            cont = 0
            consec = 0
            hist = []
            for step in range(L):
                if not eng.isAlive():
                    break
                tracker.new_step()
                if ctx.choice('window%d' % step, ['launch', 'Killed-before-launch']) == 'Killed-before-launch':
                    # kill() arrives after run()/restart() returned but before the task is launched
                    r = 'Killed'
                    eng.killed_before_launch()
                    ctx.witness('killed_in_the_launch_window')
                else:
                    eng.launch_now()
                    if launches and launches[-1] != 'task':
                        # the submission itself failed: LaunchTask reported SubmissionFailed, there is no task to wait for
                        r = 'SubmissionFailed'
                        got = eng.task_exits()
                        ctx.check(got == 'SubmissionFailed', 'a launch that raises is reported as SubmissionFailed', (launches, got))
                        ctx.witness('submission_failed_at_launch')
                    else:
                        # the launched task (stored by the real LaunchTask stage) exits: Wait, FinalisePerformanceInfo,
                        # HandleTaskExit of the real pipeline
                        r = ctx.choice('exit%d' % step, list(reasons))
                        eng.task_exits(r)
                ctx.check(eng.exitReason() == r, 'the engine reports the exit reason of its last execution', (hist, r, eng.exitReason()))
                before = eng.run_calls
                ctl.postMortemCheck(comp.state, comp)
                n = eng.run_calls - before
                hist.append((r, n))
                ctx.check(n <= 1, 'at most one new execution per task exit', hist)
                if n:
                    ctx.witness('restarted')
                    ctx.check(r not in ('Killed', 'Cancelled'), 'no restart after Killed/Cancelled', hist)
                    ctx.check(r == 'SubmissionFailed' or rho.known.get(r) is True,
                              'restart only for reasons in restartHookOn or SubmissionFailed', hist)
                    ctx.check(eng.isAlive(), 'a restarted engine is alive again', hist)
                    if r == 'SubmissionFailed':
                        consec += 1
                        ctx.check(consec <= 5, 'consecutive resubmissions after SubmissionFailed <= 5', hist)
                        if consec == 5:
                            ctx.witness('five_resubmissions')
                    else:
                        consec = 0
                        cont += 1
                        em = effective_max(wa)
                        ctx.check(em is not None, 'restart consulted maxRestarts', hist)
                        ctx.check(em == -1 or cont <= em,
                                  'continuation restarts never exceed the maximum', (hist, em))
                        if em != -1 and cont == em and em > 0:
                            ctx.witness('budget_reached')
                else:
                    ctx.witness('refused')
                    if r != 'SubmissionFailed':
                        consec = 0
                    exp = codes.FINISHED_STATE if r == 'Success' else (
                        codes.SHUTDOWN_STATE if sdo.known.get(r) is True else codes.FAILED_STATE)
                    ctx.check(comp.controllerState in FINAL, 'refused restart => final state', hist)
                    ctx.check(comp.state == exp, 'final state follows the exit reason rules',
                              (hist, comp.state, exp))
                    ctx.check(eng.isShutdown, 'engine shut down after final state', hist)
                    # a later restart attempt must not start the task again
                    ctl._restartComponent(comp, exitReason=r, returncode=1)
                    ctx.check(eng.run_calls == before, 'no execution after the final state', hist)
            return (hist, cont, comp.state, eng.restarts, eng._resubmissionAttempts, hook_calls)
    return body


def body_step():
    """One task exit from an arbitrary recorded state (inductive step; histories of any length).

    Invariants assumed on the pre-state and re-established by the step:
      I1  cont  <= engine.restarts          (cont  = continuation restarts really performed so far)
      I2  consec <= engine._resubmissionAttempts <= 5   (consec = consecutive resubmissions so far)
      I3  maximum m != -1  =>  cont <= m
    Base case (fresh engine: all counters 0) is checked by the bounded-sequence harness."""
    def body(ctx):
        job = LazyJob(0, 'A')
        job._ctx = ctx
        job.customAttributes = LazyCustom(ctx)
        wa, rho, sdo = make_policy(ctx, job)
        maxn = []

        def lazy_max():
            k = ctx.choice('maxRestarts_kind', ['none', 'unlimited', 'n'])
            if k == 'none':
                return None
            if k == 'unlimited':
                return -1
            maxn.append(ctx.int('maxRestarts_n', 0, 9))
            return maxn[0]
        wa.lazy['maxRestarts'] = lazy_max
        eng = HEngine(job)
        comp = HComp(job, eng)
        ctl = new_controller()
        pre_restarts = ctx.int('pre_restarts', 0, 9)
        pre_resub = ctx.int('pre_resub', 0, 5)
        cont = ctx.int('cont', 0, 9)
        consec = ctx.int('consec', 0, 5)
        ctx.assume(cont <= pre_restarts)
        ctx.assume(consec <= pre_resub)
        eng.restarts = pre_restarts
        eng._resubmissionAttempts = pre_resub
        eng._runCalled = True
        eng.run_calls = 1
        hook_calls = []

        def hook(workingDirectory, restarts, componentName, log, exitReason, exitCode):
            out = ctx.choice('hook', HOOK_OUTCOMES)
            hook_calls.append(out)
            if out == 'raise-IOError':
                raise IOError('stub')
            if out == 'raise-Exception':
                raise RuntimeError('stub')
            return out

        def import_hook(hooks_dir, hook_file='restart.py'):
            if ctx.flag('hook_importable'):
                return types.SimpleNamespace(Restart=hook)
            raise ImportError('stub')

        tracker = UnstableFor(ctx)
        tracker.new_step()
        with Patch() as p:
            p.set(experiment.model.hooks, 'import_hooks_restart', import_hook)
            p.set(control, 'time', types.SimpleNamespace(sleep=lambda s: None))
            p.set(monitor_mod.MonitorExceptionTracker, 'defaultTracker', classmethod(lambda cls: tracker))
            r = ctx.choice('exit', REASONS + ['Killed-before-launch'])
            if r == 'Killed-before-launch':
                r = 'Killed'
                eng._setExitReason('Killed')
            else:
                eng.process = _StubProc(r)
                eng._setExitReason(r)
            ctl.postMortemCheck(comp.state, comp)
            n = eng.run_calls - 1
            ctx.check(n <= 1, 'at most one new execution per task exit', r)
            if n:
                ctx.witness('step_restarted')
                ctx.check(r not in ('Killed', 'Cancelled'), 'no restart after Killed/Cancelled', r)
                ctx.check(r == 'SubmissionFailed' or rho.known.get(r) is True,
                          'restart only for reasons in restartHookOn or SubmissionFailed', r)
                if r == 'SubmissionFailed':
                    ctx.check(consec + 1 <= 5, 'consecutive resubmissions after SubmissionFailed <= 5', r)
                    ctx.check(consec + 1 <= eng._resubmissionAttempts, 'I2 re-established (resubmission counter)', r)
                    ctx.check(eng._resubmissionAttempts <= 5, 'I2 re-established (cap)', r)
                    ctx.check(cont <= eng.restarts, 'I1 re-established', r)
                else:
                    em = effective_max(wa)
                    ctx.check(em is not None, 'restart consulted maxRestarts', r)
                    if not (isinstance(em, int) and em == -1):
                        ctx.check(cont + 1 <= em, 'continuation restarts never exceed the maximum', r)
                    ctx.check(cont + 1 <= eng.restarts, 'I1 re-established', r)
                    # consec resets to 0; I2 needs the counter to stay within its cap
                    ctx.check(eng._resubmissionAttempts <= 5, 'I2 re-established (cap)', r)
            else:
                ctx.witness('step_refused')
                exp = codes.FINISHED_STATE if r == 'Success' else (
                    codes.SHUTDOWN_STATE if sdo.known.get(r) is True else codes.FAILED_STATE)
                ctx.check(comp.controllerState in FINAL, 'refused restart => final state', r)
                ctx.check(comp.state == exp, 'final state follows the exit reason rules', (r, comp.state, exp))
                ctx.check(eng.isShutdown, 'engine shut down after final state', r)
                ctl._restartComponent(comp, exitReason=r, returncode=1)
                ctx.check(eng.run_calls == 1, 'no execution after the final state', r)
            return (r, n, comp.state, hook_calls)
    return body


class UnstableFor(object):
    """isSystemStable() answers False for the first k calls after a task exit, then True;
    k is a solver variable per task exit (decided at the first call)."""

    def __init__(self, ctx, options=(0, 1, 6)):
        self.ctx = ctx
        self.options = list(options)
        self.step = -1
        self.k = None
        self.calls = 0

    def new_step(self):
        self.step += 1
        self.k = None
        self.calls = 0

    def isSystemStable(self, interval):
        if self.k is None:
            self.k = self.ctx.choice('unstable_calls%d' % self.step, self.options)
        self.calls += 1
        return self.calls > self.k

    def printStatus(self, details=False):
        pass


def _launch_error():
    import experiment.runtime.errors as rterr
    try:
        return rterr.JobLaunchError('stub: backend refused the task', None)
    except TypeError:
        return rterr.JobLaunchError('stub: backend refused the task')


class _StubProc(object):
    status = None

    def __init__(self, reason):
        self.exitReason = reason
        self.returncode = 0 if reason == 'Success' else 1
        self.schedulerId = None
        self.performanceInfo = types.SimpleNamespace(getElements=lambda: {})

    def wait(self):
        pass

    def isAlive(self):
        return False

    def kill(self):
        pass


class HRepEngine(engine_mod.RepeatingEngine):
    def __init__(self, job):
        self.job = job
        self.log = HEngine(job).log
        self.process = None
        self._exitReason = None
        self._shutdown = False
        self.restarts = 0
        self._resubmissionAttempts = 0
        self._runCalled = None
        self._consume = True
        self.lastExecution = False
        self.kernelCompleted = False
        self.cancelMonitorEvent = threading.Event()
        self._producers_are_finished = True
        self._suicide = False
        self._stateDict = {}
        self._lastLaunched = None
        self.lastLaunchedLock = threading.RLock()
        self.task_launches = 0

    def emit_now(self, what=None):
        pass

    # performance book-keeping is I/O + datetime arithmetic: not the subject
    def _perfData_initialize(self, *a, **k): return {}
    def _perfData_before_launch(self, p, **k): return p
    def _perfData_launch_failed(self, p, *a): return p
    def _perfData_launch_succeeded(self, p, *a): return p
    def _perfData_register(self, *a, **k): pass


def body_repeating(L):
    def body(ctx):
        job = LazyJob(0, 'R', {'isRepeat': True})
        job._ctx = ctx
        wa, rho, sdo = make_policy(ctx, job)
        eng = HRepEngine(job)
        comp = HComp(job, eng)
        ctl = new_controller()
        launches = []

        def taskgen(j, **kw):
            if ctx.flag('taskgen_raises%d' % len(launches)):
                launches.append('raise')
                raise RuntimeError('stub')
            r = ctx.choice('restart_exit%d' % len(launches), REASONS)
            launches.append(r)
            return _StubProc(r)
        eng.taskGenerator = taskgen

        class InlineThread(object):
            def __init__(self, target=None, **kw):
                self.target = target

            def start(self):
                self.target()

        tracker = UnstableFor(ctx)
        with Patch() as p:
            p.set(control, 'time', types.SimpleNamespace(sleep=lambda s: None))
            p.set(monitor_mod.MonitorExceptionTracker, 'defaultTracker', classmethod(lambda cls: tracker))
            p.set(engine_mod, 'threading', types.SimpleNamespace(Thread=InlineThread, Event=threading.Event,
                                                                 RLock=threading.RLock))
            # the monitor loop has ended: kill() received, last kernel executed with a symbolic exit
            eng.cancelMonitorEvent.set()
            eng.kernelCompleted = True
            last = ctx.choice('last_exit', REASONS)
            eng.process = _StubProc(last)
            hist = []
            for step in range(L):
                if eng.isAlive() or comp.controllerState in FINAL:
                    break
                r = eng.exitReason()
                tracker.new_step()
                before = len(launches)
                ctl.postMortemCheck(comp.state, comp)
                n = len(launches) - before
                hist.append((r, eng.process.exitReason, n))
                if n:
                    ctx.witness('rep_restarted')
                    ctx.check(r == 'ResourceExhausted', 'repeating engine restarts only after ResourceExhausted', hist)
                    ctx.check(rho.known.get(r) is True, 'restart only if listed in restartHookOn', hist)
                ctx.check(len(launches) <= 1, 'a repeating engine restarts at most once', hist)
                if not n:
                    ctx.witness('rep_refused')
                    ctx.check(comp.controllerState in FINAL, 'refused restart => final state', hist)
            ctx.check(comp.controllerState in FINAL, 'component reaches a final state within the bound', hist)
            return (hist, launches, comp.state)
    return body


def factory(param):
    if param['kind'] == 'engine':
        return body_engine(param['L'], param.get('reasons', REASONS), param.get('narrow', False), param.get('launch_failures', False))
    if param['kind'] == 'step':
        return body_step()
    return body_repeating(param['L'])


def signature(param, assignment, message, detail):
    a = assignment or {}
    rho_sf = a.get('restartHookOn:SubmissionFailed')
    return '%s|%s|rho_SubmissionFailed=%s' % (param['kind'], message, rho_sf)


def main(tier, seed, only=None):
    rep = Report('C12', tier, seed)
    L = 3 if tier == 'quick' else 4
    L2 = 7 if tier == 'quick' else 9
    max_paths = 600000 if tier == 'quick' else 8000000
    rep.functions = ['control.Controller.postMortemCheck', 'control.Controller._restartComponent',
                     'control.Controller._unstableSystemRestart', 'control.TransitionComponentToFinalState',
                     'workflow.ComponentState.restart/finish/state/run', 'engine.Engine.restart',
                     'engine.Engine._setExitReason/isAlive/exitReason/returncode/shutdown/resubmissionAttempts',
                     'engine.RepeatingEngine.restart/exitReason/isAlive', 'engine.DLMESORestart']
    rep.bounds = {'task_exits_per_component': {'all 8 exit reasons': L, 'reasons {SubmissionFailed,Success,ResourceExhausted,Killed}': L2, 'inductive step from arbitrary counters (restarts<=9, resubmissions<=5, maxRestarts in None,-1,0..9)': 1}, 'maxRestarts': [None, -1, 0, 1, 2, 3],
                  'restartHookFile': [None, '', 'hook.py'], 'hook_outcomes': [str(h) for h in HOOK_OUTCOMES],
                  'restartHookOn': 'any subset of the reasons the schema admits', 'shutdownOn': 'any subset',
                  'backend': ['local', 'simulator'], 'max_paths': max_paths}
    rep.outside = ['real restart hook modules and DLMESO file edits beyond a missing CONTROL file',
                   'wall-clock waits (time.sleep stubbed)', 'sequences longer than the bound',
                   'maxRestarts > 3']
    rep.assumptions = ['Engine.run replaced by a recorder that marks the engine alive (rx launch pipeline not executed)',
                       'hooks.import_hooks_restart stub: importable (symbolic) hook with symbolic outcome, else ImportError',
                       'MonitorExceptionTracker.isSystemStable returns a symbolic boolean per call',
                       'time.sleep no-op', 'RepeatingEngine: threading.Thread runs the restart inline; task generator '
                       'returns a task with symbolic exit reason or raises',
                       'restartHookOn restricted to the values FlowIR validation admits (no Killed/Cancelled)']
    rep.explanation = ('bounded symbolic execution (symx/z3): exit reason of every execution, restart policy options, '
                       'hook outcomes and stability answers are solver variables; DFS over all feasible decision '
                       'vectors; every path re-validated natively')
    rep.required_witnesses = ['step_restarted', 'step_refused', 'restarted', 'refused', 'budget_reached', 'five_resubmissions', 'submission_failed_at_launch', 'killed_in_the_launch_window', 'rep_restarted',
                              'rep_refused']
    SF = ['SubmissionFailed', 'Success', 'ResourceExhausted', 'Killed']
    params = [{'kind': 'step', 'name': 'step'},
              {'kind': 'repeating', 'L': 3, 'name': 'repeating'},
              {'kind': 'engine', 'L': L, 'reasons': REASONS, 'name': 'seq-all'},
              {'kind': 'engine', 'L': L2, 'reasons': SF, 'narrow': True, 'name': 'seq-sf'},
              # every execution either gets a task (that exits with SubmissionFailed or Success) or fails to launch
              {'kind': 'engine', 'L': L2, 'reasons': ['SubmissionFailed', 'Success'], 'narrow': True, 'launch_failures': True, 'name': 'seq-launch'}]
    if only:
        params = [p for p in params if p['name'] in only]
        rep.required_witnesses = []
    s = explore_parallel('restart-policy', factory, params, signature=signature, max_paths=max_paths, seed=seed,
                         chunk=300, per_param_max=max_paths // 2)
    rep.add(s)
    return rep.finish()


def replay(v):
    st, msg, detail = replay_assignment(factory, v['param'], v['assignment'])
    print('replay: %s %s %s' % (st, msg, detail))
    return 1 if st == 'violation' else 0
