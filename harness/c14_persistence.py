"""C14 -- experiment state files are updated atomically and read back faithfully (engine E1).

Real code per path: data.Status.update / writeToStream / statusFromFile / __init__,
output.StatusMonitor.try_generate_status_details, output.OutputAgent.updateLogs (+ conf.ConfigurationFileToJson),
conf.FlowIRExperimentConfiguration.store_unreplicated_flowir_to_disk / _generate_instance_files.
The file system is an in-memory model injected as open/os.rename/os.remove/os.path.exists into the module
globals of data, output, conf (and configparser for the reader); the position of the crash / I/O error among
the I/O calls of one update, its kind, the durable prefix of unflushed data and the number of preceding
updates are solver variables.
"""
import configparser
import datetime
import io
import json
import logging
import os
import threading
import types

import yaml

import experiment.model.conf as conf
import experiment.model.data as data
import experiment.runtime.output as output
from experiment.model.frontends.flowir import FlowIRConcrete

from symx.runner import explore_parallel, Report, replay_assignment


class Crash(BaseException):
    pass


class VFile(object):
    def __init__(self, vfs, path, mode):
        self.vfs, self.path, self.mode = vfs, path, mode
        self.pending = ''
        self.closed = False
        self.pos = 0
        if 'w' in mode:
            vfs.files[path] = ''
        elif path not in vfs.files:
            raise FileNotFoundError(path)

    # -- writing
    def write(self, s):
        self.vfs.op('write', self.path)
        self.pending += s
        self.vfs.open_handles[id(self)] = self
        return len(s)

    def flush(self):
        self.vfs.files[self.path] = self.vfs.files.get(self.path, '') + self.pending
        self.pending = ''

    def close(self):
        if not self.closed:
            if 'w' in self.mode:
                self.vfs.op('close', self.path)
                self.flush()
            self.closed = True
            self.vfs.open_handles.pop(id(self), None)

    def __enter__(self):
        return self

    def __exit__(self, et, ev, tb):
        if et is not None and issubclass(et, Crash):
            return False
        self.close()
        return False

    # -- reading
    def read(self, n=-1):
        c = self.vfs.files[self.path]
        out = c[self.pos:] if n is None or n < 0 else c[self.pos:self.pos + n]
        self.pos += len(out)
        return out

    def readline(self):
        c = self.vfs.files[self.path]
        i = c.find('\n', self.pos)
        end = len(c) if i < 0 else i + 1
        out = c[self.pos:end]
        self.pos = end
        return out

    def __iter__(self):
        while True:
            l = self.readline()
            if not l:
                return
            yield l

    def readlines(self):
        return list(iter(self))


class VFS(object):
    """In-memory file system with one injectable fault."""

    def __init__(self, ctx=None):
        self.ctx = ctx
        self.files = {}
        self.open_handles = {}
        self.armed = False
        self.fault = None          # (op index, kind, op name)
        self.nops = 0
        self.trace = []
        self.clock = _Clock()

    def op(self, name, path):
        if not self.armed:
            return
        k = self.nops
        self.nops += 1
        self.trace.append((k, name, os.path.basename(path)))
        if self.fault is None and self.ctx is not None and self.ctx.flag('fault_at_io_call_%d' % k):
            kind = self.ctx.choice('fault_kind', ['crash', 'io-error'])
            self.fault = (k, kind, name)
            if kind == 'crash':
                # unflushed data of open handles becomes durable only up to a symbolic prefix
                for h in list(self.open_handles.values()):
                    keep = self.ctx.choice('durable_prefix', ['none', 'half', 'all'])
                    n = {'none': 0, 'half': len(h.pending) // 2, 'all': len(h.pending)}[keep]
                    self.files[h.path] = self.files.get(h.path, '') + h.pending[:n]
                raise Crash()
            raise OSError(5, 'injected I/O error at %s' % name)

    def open(self, path, mode='r', *a, **k):
        if 'w' in mode:
            self.op('open-w', path)
        return VFile(self, path, mode)

    def rename(self, src, dst):
        self.op('rename', dst)
        if src not in self.files:
            raise FileNotFoundError(src)
        self.files[dst] = self.files.pop(src)

    replace = rename

    def remove(self, path):
        self.op('remove', path)
        self.files.pop(path, None)

    DIRS = ('/inst/output', '/inst/conf', '/inst')

    def exists(self, path):
        return path in self.files or path in self.DIRS

    def isfile(self, path):
        return path in self.files

    def isdir(self, path):
        return path in self.DIRS

    def getsize(self, path):
        if path not in self.files:
            raise FileNotFoundError(path)
        return len(self.files[path])

    def copyfile(self, src, dst, *a, **k):
        self.op('open-w', dst)
        if src not in self.files:
            raise FileNotFoundError(src)
        self.files[dst] = ''
        self.op('write', dst)
        self.files[dst] = self.files[src]
        return dst

    def move(self, src, dst, *a, **k):
        self.rename(src, dst)
        return dst


class _PathProxy(object):
    def __init__(self, vfs):
        self._v = vfs

    def __getattr__(self, n):
        if n in ('exists', 'lexists'):
            return self._v.exists
        if n in ('isfile', 'isdir', 'getsize'):
            return getattr(self._v, n)
        return getattr(os.path, n)


class _OsProxy(object):
    def __init__(self, vfs):
        self._v = vfs
        self.path = _PathProxy(vfs)

    def __getattr__(self, n):
        if n in ('rename', 'remove', 'replace'):
            return getattr(self._v, n)
        if n == 'unlink':
            return self._v.remove
        return getattr(os, n)


class _ShutilProxy(object):
    def __init__(self, vfs):
        self._v = vfs

    def __getattr__(self, n):
        if n in ('copyfile', 'copy', 'copy2'):
            return self._v.copyfile
        if n == 'move':
            return self._v.move
        import shutil
        return getattr(shutil, n)


class _Clock(object):
    """datetime replacement with a deterministic now()."""
    def __init__(self):
        self.t = datetime.datetime(2026, 1, 1, 0, 0, 0)
        self.datetime = self
        self.timedelta = datetime.timedelta

    def now(self, tz=None):
        self.t = self.t + datetime.timedelta(seconds=1)
        return self.t

    def __getattr__(self, n):
        return getattr(datetime, n)


class Patched(object):
    def __init__(self, vfs):
        self.vfs = vfs
        self.saved = []

    def __enter__(self):
        osp = _OsProxy(self.vfs)
        for mod in (data, output, conf):
            self.saved.append((mod, 'open', mod.__dict__.get('open', None), 'open' in mod.__dict__))
            mod.open = self.vfs.open
            self.saved.append((mod, 'os', mod.os, True))
            mod.os = osp
            if hasattr(mod, 'shutil'):
                self.saved.append((mod, 'shutil', mod.shutil, True))
                mod.shutil = _ShutilProxy(self.vfs)
        self.saved.append((configparser, 'open', configparser.__dict__.get('open', None), 'open' in configparser.__dict__))
        configparser.open = self.vfs.open
        self.saved.append((data, 'datetime', data.datetime, True))
        data.datetime = self.vfs.clock
        return self

    def __exit__(self, *a):
        for mod, name, old, had in reversed(self.saved):
            if had:
                setattr(mod, name, old)
            else:
                delattr(mod, name)
        return False


DESCRIPTIONS = ['plain', 'two\nlines', 'back\\slash', 'a=b=c', 'café €', 'tab\tand\rcr', 'trailing newline\n',
                '  leading blanks', 'trailing blank ', 'quote\' " %(x)s 50%', '\\n literal backslash-n']


# ------------------------------------------------------------------ scenarios: each returns (run_update(i), load(vfs), target)
def scenario_status(ctx, vfs):
    st = data.Status('/inst/output/status.txt', {}, ['stage0', 'stage1'])
    st.log = logging.getLogger('verif')
    desc = ctx.choice('error_description', DESCRIPTIONS + [None])

    def update(i):
        st.setTotalProgress(0.25 * (i + 1))
        st.setStageState('running')
        if desc is not None and i == 0:
            st.setErrorDescription(desc)     # set once; the periodic updates that follow must not alter it
        return st.update()

    def load(v):
        s2 = data.Status.statusFromFile('/inst/output/status.txt')
        return {'total-progress': str(s2.totalProgress()), 'error-description': s2.data.get('error-description'),
                'stage-state': s2.stageState(), 'stages': s2.stages()}

    def expected(i):
        return {'total-progress': str(0.25 * (i + 1)), 'error-description': desc, 'stage-state': 'running',
                'stages': ['stage0', 'stage1']}
    return update, load, expected, '/inst/output/status.txt', {'error_description': desc}


def scenario_details(ctx, vfs):
    mon = object.__new__(output.StatusMonitor)
    mon.mtx_compute_status = threading.RLock()
    mon.log = logging.getLogger('verif')
    state = {'i': 0}
    mon._status_database = types.SimpleNamespace(
        getWorkflowStatus=lambda json_friendly=True: {'stage0': {'comp': {'state': 'running', 'n': state['i'], 'pad': 'x' * 64}}})
    inst = types.SimpleNamespace(outputDir='/inst/output')
    mon.weakExperiment = lambda: types.SimpleNamespace(instanceDirectory=inst)

    def update(i):
        state['i'] = i
        mon.try_generate_status_details()
        return True

    def load(v):
        return json.loads(v.files['/inst/output/status_details.json'])

    def expected(i):
        return {'stage0': {'comp': {'state': 'running', 'n': i, 'pad': 'x' * 64}}}
    return update, load, expected, '/inst/output/status_details.json', {}


def scenario_outputs(ctx, vfs):
    ag = object.__new__(output.OutputAgent)
    ag.log = logging.getLogger('verif')
    inst = types.SimpleNamespace(mtx_output=threading.RLock())
    ag.weakExperiment = lambda: types.SimpleNamespace(instanceDirectory=inst)
    ag.outputDir = types.SimpleNamespace(path='/inst/output')
    ag.outputFile = '/inst/output/output.txt'
    desc = ctx.choice('key_output_description', ['plain text', 'yield 50% of x', 'a: b = c', 'café'])
    ag.dataReferences = {'Energies': {'status': {'version': 0, 'lastLocation': 'output/e.csv', 'description': desc, 'type': 'csv',
                                                  'creationTime': 't0', 'production': 'yes', 'final': 'no'}}}
    which = ctx.choice('file', ['output.txt', 'output.json'])

    def update(i):
        ag.dataReferences['Energies']['status']['version'] = i + 1
        ag.dataReferences['Energies']['status']['creationTime'] = 't%d' % i
        ag.updateLogs()
        return True

    def load(v):
        if which == 'output.json':
            return json.loads(v.files['/inst/output/output.json'])['Energies']
        cfg = configparser.RawConfigParser()
        cfg.read_string(v.files['/inst/output/output.txt'])
        return dict(cfg['Energies'])

    def expected(i):
        return {'filename': 'e.csv', 'filepath': 'output/e.csv', 'description': desc, 'type': 'csv',
                'creationtime': 't%d' % i, 'version': str(i + 1), 'production': 'yes', 'final': 'no'}
    return update, load, expected, '/inst/output/' + which, {'description': desc}


def scenario_instance(ctx, vfs):
    cfg = object.__new__(conf.FlowIRExperimentConfiguration)
    cfg._conf_dir = '/inst/conf'
    doc = {'components': [{'stage': 0, 'name': 'c0', 'command': {'executable': 'echo', 'arguments': 'iteration-0'}}]}
    cfg._unreplicated = FlowIRConcrete(doc, 'default', {})
    which = ctx.choice('file', ['flowir_instance.yaml', 'manifest.yaml'])
    cfg._manifest = types.SimpleNamespace(manifestData={'data': '/pkg/data:copy'})

    def update(i):
        if i > 0:
            cfg._unreplicated.add_component({'stage': 0, 'name': 'c%d' % i,
                                             'command': {'executable': 'echo', 'arguments': 'iteration-%d' % i}})
        cfg._manifest.manifestData['iter%d' % i] = '/pkg/i%d:link' % i
        errs = []
        cfg._generate_instance_files(True, True, errs)     # failures are reported through out_errors
        return not errs

    def load(v):
        d = yaml.safe_load(v.files['/inst/conf/' + which])
        if which == 'manifest.yaml':
            return d
        return sorted(c['name'] for c in d['components'])

    def expected(i):
        if which == 'manifest.yaml':
            m = {'data': '/pkg/data:copy'}
            m.update({'iter%d' % j: '/pkg/i%d:link' % j for j in range(i + 1)})
            return m
        return sorted('c%d' % j for j in range(i + 1))
    return update, load, expected, '/inst/conf/' + which, {}


SCENARIOS = {'status': scenario_status, 'status_details': scenario_details, 'key_outputs': scenario_outputs,
             'instance_files': scenario_instance}


def make_body(scn):
    def body(ctx):
        vfs = VFS(ctx)
        u = ctx.choice('preceding_updates', [0, 1, 2])
        with Patched(vfs):
            update, load, expected, target, info = SCENARIOS[scn](ctx, vfs)
            try:
                for i in range(u):
                    update(i)
                pre_err = None
            except Exception as e:
                pre_err = e
            ctx.check(pre_err is None, 'an update reports failures without raising', (repr(pre_err), {'scenario': scn, 'info': info, 'fault': None}))
            prev = vfs.files.get(target)
            # reference content of the complete new version: same update on a twin without faults
            twin = VFS(None)
            with Patched(twin):
                update2, load2, expected2, _, _ = SCENARIOS[scn](_Replay(ctx), twin)
                try:
                    for i in range(u + 1):
                        update2(i)
                    pre_err = None
                except Exception as e:
                    pre_err = e
            ctx.check(pre_err is None, 'an update reports failures without raising', (repr(pre_err), {'scenario': scn, 'info': info, 'fault': None}))
            new = twin.files.get(target)
        with Patched(vfs):
            vfs.armed = True
            crashed = False
            err = None
            try:
                update(u)
            except Crash:
                crashed = True
            except Exception as e:
                err = e
            vfs.armed = False
            now = vfs.files.get(target)
            detail = {'scenario': scn, 'preceding_updates': u, 'fault': vfs.fault, 'io_calls': vfs.trace, 'info': info,
                      'content': None if now is None else now[:160]}
            ctx.check(err is None, 'an update reports failures without raising', (repr(err), {'scenario': scn, 'info': info, 'fault': vfs.fault}))
            if vfs.fault is not None:
                ctx.witness('fault_injected_%s' % vfs.fault[1])
                if vfs.fault[2] == 'rename':
                    ctx.witness('fault_between_write_and_rename')
            if prev is None and now is not None and now.strip() == '{}':
                now = None     # no previous version: an empty JSON document stands for "nothing written yet"
            ctx.check(now == prev or now == new,
                      'after a %s the file holds the complete previous or the complete new version'
                      % ('crash' if crashed else ('I/O error' if vfs.fault else 'fault-free update')), detail)
            if now is not None:
                try:
                    got = load(vfs)
                    lerr = None
                except Exception as e:
                    got, lerr = None, e
                ctx.check(lerr is None, 'the surviving version can be loaded', (repr(lerr), detail))
                want = expected(u) if now == new else expected(u - 1)
                ctx.check(got == want, 'reading the file back returns exactly the values last written', (got, want, detail))
                ctx.witness('read_back_compared')
        return (scn, u, vfs.fault, crashed)
    return body


class _Replay(object):
    """Gives the twin scenario the same choices as the main one (choices are cached by name on the ctx)."""
    def __init__(self, ctx):
        self.ctx = ctx
        if not hasattr(ctx, '_choice_cache'):
            ctx._choice_cache = {}

    def choice(self, name, options):
        return self.ctx._choice_cache[name]

    def flag(self, name):
        return False


def _cached_choice(ctx):
    if getattr(ctx, '_wrapped', False):
        return
    ctx._choice_cache = {}
    orig = ctx.choice

    def choice(name, options):
        v = orig(name, options)
        ctx._choice_cache[name] = v
        return v
    ctx.choice = choice
    ctx._wrapped = True


def factory(param):
    inner = make_body(param['scenario'])

    def body(ctx):
        _cached_choice(ctx)
        return inner(ctx)
    return body


def signature(param, assignment, message, detail):
    d = detail
    while isinstance(d, (list, tuple)) and d:
        d = d[-1]
    fault = (d or {}).get('fault') if isinstance(d, dict) else None
    info = (d or {}).get('info') if isinstance(d, dict) else {}
    extra = ''
    if param['scenario'] == 'status' and 'read' in message:
        desc = (info or {}).get('error_description') or ''
        extra = '|desc-has-edge-whitespace=%s' % (desc != desc.strip())
    if param['scenario'] == 'key_outputs':
        extra = '|desc-has-percent=%s' % ('%' in ((info or {}).get('description') or ''))
    return '%s|%s|fault=%s%s' % (param['scenario'], message, (fault[1] + '@' + fault[2]) if fault else None, extra)


def main(tier, seed, only=None):
    rep = Report('C14', tier, seed)
    rep.functions = ['data.Status.update/writeToStream/statusFromFile/__init__', 'output.StatusMonitor.try_generate_status_details',
                     'output.OutputAgent.updateLogs', 'conf.ConfigurationFileToJson', 'conf.FlowIRExperimentConfiguration.'
                     'store_unreplicated_flowir_to_disk/_generate_instance_files']
    rep.bounds = {'fault position': 'every I/O call (open-for-write, each write, close, rename, remove) of one update',
                  'fault kind': ['crash (unflushed data durable up to none/half/all)', 'I/O error raised once, execution continues'],
                  'preceding successful updates': [0, 1, 2], 'error descriptions': DESCRIPTIONS,
                  'files': ['output/status.txt', 'output/status_details.json', 'output/output.txt', 'output/output.json',
                            'conf/flowir_instance.yaml', 'conf/manifest.yaml']}
    rep.outside = ['real file-system semantics (page cache, directory fsync, NFS)', 'concurrent writers', 'characters of the escaped field '
                   'outside the listed set (the unicode_escape codec is C code and cannot be symbolic)']
    rep.assumptions = ['in-memory file system: open(w) truncates durably, rename is atomic, close flushes, a crash keeps a prefix of unflushed data',
                       'datetime.now replaced by a deterministic clock; status database / experiment objects are minimal stubs',
                       'the solver chooses (fault position, kind, durable prefix, history length, description); payloads are concrete']
    rep.explanation = ('bounded symbolic execution (symx/z3) with the crash / error position among the I/O calls as a solver variable over an '
                       'in-memory file-system model; real update and loader code on every path')
    rep.required_witnesses = ['fault_injected_crash', 'fault_injected_io-error', 'fault_between_write_and_rename', 'read_back_compared']
    params = [{'scenario': s, 'name': s} for s in SCENARIOS]
    if only:
        params = [p for p in params if p['name'] in only]
        rep.required_witnesses = []
    s = explore_parallel('persistence', factory, params, signature=signature, seed=seed, chunk=100, validate=False)
    rep.add(s)
    return rep.finish()


def replay(v):
    st, msg, detail = replay_assignment(factory, v['param'], v['assignment'])
    print('replay: %s %s %s' % (st, msg, str(detail)[:2000]))
    return 1 if st == 'violation' else 0
