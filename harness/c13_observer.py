"""C13 -- a repeating observer sees its producers' final output and then stops (engine E1).

Real code per path: RepeatingEngine.run (closures EngineTaskController / schedule_next_instance),
monitor.CreateMonitor (the polling loop), RepeatingEngine.notify_all_producers_finished (incl. the kill-after
timer callback), canConsume, kill, exitReason, isAlive.
The threads become one symbolic history: threading.Thread.start runs the monitor loop inline, time.sleep and
Task.wait are switch points at which the environment (solver decisions) may deliver new producer output, the
producers-finished notification, an external kill, or fire a due timer; a fake clock replaces datetime.
"""
import threading
import types

import experiment.model.codes as codes
import experiment.runtime.engine as engine_mod
import experiment.runtime.monitor as monitor_mod

from symx.runner import explore_parallel, Report, replay_assignment
from harness.rt_stubs import FakeJob, Patch
from symx.core import PathAbort


class Instant(object):
    __slots__ = ('t',)

    def __init__(self, t):
        self.t = t

    def __sub__(self, o):
        if isinstance(o, Instant):
            return Delta(self.t - o.t)
        return Instant(self.t - o.s)

    def __add__(self, o):
        return Instant(self.t + o.s)

    def __lt__(self, o): return self.t < o.t
    def __le__(self, o): return self.t <= o.t
    def __gt__(self, o): return self.t > o.t
    def __ge__(self, o): return self.t >= o.t
    def __eq__(self, o): return isinstance(o, Instant) and self.t == o.t
    def __hash__(self): return hash(self.t)
    def strftime(self, f): return 't%s' % self.t
    def __repr__(self): return 'T%s' % self.t


class Delta(object):
    __slots__ = ('s',)

    def __init__(self, s=0, seconds=None):
        self.s = seconds if seconds is not None else s

    def total_seconds(self):
        return float(self.s)


class World(object):
    def __init__(self, ctx, max_switch):
        self.ctx = ctx
        self.now = 0.0
        self.max_switch = max_switch
        self.switches = 0
        self.engine = None
        self.any_output = False
        self.last_output = None
        self.outputs = 0
        self.notified_at = None
        self.killed_externally = False
        self.timers = []          # (due, callback)
        self.launches = []        # (launch time, outcome)
        self.controller_calls_after_notify = 0
        self.log = []
        self.dead_at_switch = None

    # fake datetime module
    def datetime_ns(self):
        w = self

        class _DT(object):
            @staticmethod
            def now():
                return Instant(w.now)
        return types.SimpleNamespace(datetime=_DT, timedelta=lambda seconds=0: Delta(seconds))

    def advance(self, dt):
        self.now += dt

    def switch(self, where):
        """Environment turn: at most one event per switch point (solver decision)."""
        self.switches += 1
        if self.switches > self.max_switch:
            raise OutOfBound()
        eng = self.engine
        for due, cb in list(self.timers):
            if due <= self.now:
                self.timers.remove((due, cb))
                self.log.append((self.now, 'timer'))
                cb()
        options = ['nothing']
        if self.notified_at is None and self.outputs < 2:
            options.append('output')
        if self.notified_at is None:
            options.append('notify')
        if not self.killed_externally and self.ctx_allow_kill:
            options.append('kill')
        ev = self.ctx.choice('event@%d' % self.switches, options) if len(options) > 1 else 'nothing'
        if ev == 'output':
            self.any_output = True
            self.last_output = self.now
            self.outputs += 1
        elif ev == 'notify':
            self.notified_at = self.now
            eng.notify_all_producers_finished()
        elif ev == 'kill':
            self.killed_externally = True
            eng.kill()
        if ev != 'nothing':
            self.log.append((self.now, ev, where))


class OutOfBound(BaseException):
    pass


class StubTask(object):
    def __init__(self, world, idx):
        self.w = world
        self.idx = idx
        self.returncode = None
        self.exitReason = None
        self.schedulerId = None
        self.performanceInfo = types.SimpleNamespace(getElements=lambda: {})
        self.killed = False

    def wait(self):
        w = self.w
        w.advance(w.ctx.choice('task%d_duration' % self.idx, [1.0, 30.0]))
        w.switch('task-wait')
        out = 'Killed' if self.killed else w.ctx.choice('task%d_outcome' % self.idx, ['Success', 'KnownIssue', 'ResourceExhausted'])
        self.exitReason = out
        self.returncode = 0 if out == 'Success' else 1
        w.launches[self.idx] = (w.launches[self.idx][0], out)

    def kill(self):
        self.killed = True

    def isAlive(self):
        return self.returncode is None


_LIFTED = {}


def lifted_init_options(self_obj):
    """The option handling of the real RepeatingEngine.__init__ (default of repeatRetries, parsing of
    kill-after-producers-done-delay), lifted from its current source: the statements that mention max_retries / _dieAfter and
    the expression stored under 'repeatRetries' in the state dictionary are executed on the harness engine."""
    import ast
    import inspect
    import textwrap
    if 'code' not in _LIFTED:
        fn = ast.parse(textwrap.dedent(inspect.getsource(engine_mod.RepeatingEngine.__init__))).body[0]
        stmts, retr_expr = [], None
        for st in fn.body:
            if isinstance(st, ast.Assign) and any(isinstance(t, ast.Attribute) and t.attr == '_stateDict' for t in st.targets) \
                    and isinstance(st.value, ast.Dict):
                for k, v in zip(st.value.keys, st.value.values):
                    if isinstance(k, ast.Constant) and k.value == 'repeatRetries':
                        retr_expr = v
                break
            names = {n.id for n in ast.walk(st) if isinstance(n, ast.Name)}
            attrs = {n.attr for n in ast.walk(st) if isinstance(n, ast.Attribute)}
            if 'max_retries' in names or '_dieAfter' in attrs:
                stmts.append(st)
        if retr_expr is None or not stmts:
            raise RuntimeError('cannot lift the option handling of RepeatingEngine.__init__ (its structure changed)')
        mod = ast.Module(body=stmts, type_ignores=[])
        ast.fix_missing_locations(mod)
        expr = ast.Expression(body=retr_expr)
        ast.fix_missing_locations(expr)
        _LIFTED['code'] = (compile(mod, '<RepeatingEngine.__init__ options>', 'exec'), compile(expr, '<repeatRetries>', 'eval'))
    code, expr = _LIFTED['code']
    ns = {'self': self_obj}
    exec(code, vars(engine_mod), ns)
    return eval(expr, vars(engine_mod), ns)


class HRep(engine_mod.RepeatingEngine):
    def __init__(self, job, world):
        self.job = job
        self.w = world
        self.log = engine_mod.moduleLogger if hasattr(engine_mod, 'moduleLogger') else __import__('logging').getLogger('v')
        self.process = None
        self._exitReason = None
        self._shutdown = False
        self.restarts = 0
        self._resubmissionAttempts = 0
        self._runCalled = None
        self._consume = False
        self._lastLaunched = None
        self.lastLaunchedLock = threading.RLock()
        self.opt_lock = threading.RLock()
        self.optimizer = None
        self._last_cached_repeat_interval_decision = None
        self.cancelMonitorEvent = threading.Event()
        self._producers_are_finished = False
        self._suicide = False
        self.lastExecution = False
        self.kernelCompleted = False
        self.producer_recently_finished_successfully = False
        # option handling = the real constructor's own statements (sets self._dieAfter, yields the effective retries)
        self._stateDict = {'repeatRetries': lifted_init_options(self), 'numberTaskLaunches': 0,
                           'lastTaskFinishedDate': None}

    def emit_now(self, what=None):
        pass

    @property
    def notifyFinished(self):
        return types.SimpleNamespace(subscribe=lambda **k: None)

    def _perfData_initialize(self, *a, **k): return {}
    def _perfData_before_launch(self, p, *a, **k): return p
    def _perfData_launch_failed(self, p, *a): return p
    def _perfData_launch_succeeded(self, p, *a): return p
    def _perfData_register(self, *a, **k): pass


def make_body(max_switch):
    def body(ctx):
        w = World(ctx, max_switch)
        w.ctx_allow_kill = ctx.flag('external_kill_possible')
        has_producers = ctx.flag('has_same_stage_producers')
        check_out = ctx.choice('check-producer-output', ['true', 'false'])
        retries = ctx.choice('repeatRetries', [None, 0, 1])
        die_after = ctx.choice('kill-after-producers-done-delay', [None, 12.0])
        variables = {'check-producer-output': check_out}
        if die_after is not None:
            variables['kill-after-producers-done-delay'] = die_after
        job = FakeJob(1, 'obs', {'isRepeat': True, 'repeatRetries': retries, 'repeatInterval': 10})
        job.flowir_description = {'variables': variables}
        job.workingDirectory = types.SimpleNamespace(directory='/nonexistent', path='/nonexistent')
        prod = types.SimpleNamespace(stageIndex=1, identification='stage1.prod',
                                     workingDirectory=types.SimpleNamespace(path='/p'))
        prod.workingDirectory = _ProdDir(w)
        job.producerInstances = [prod] if has_producers else []
        job.producersHaveOutputSinceDate = lambda date: (w.last_output is not None and
                                                         (date is None or w.last_output >= date.t))
        eng = HRep(job, w)
        w.engine = eng

        def taskgen(j, outputFile=None, errorFile=None):
            ctx.check(eng.consume, 'a task is generated only once the engine can consume', w.log)
            if has_producers:
                ctx.check(w.any_output, 'the observer never executes before there is producer output', (w.log, w.launches))
            w.launches.append((w.now, None))
            t = StubTask(w, len(w.launches) - 1)
            return t
        eng.taskGenerator = taskgen

        class InlineThread(object):
            def __init__(self, target=None, name=None, **k):
                self.target = target

            def start(self):
                self.target()

        def sleep(dt):
            w.advance(dt)
            w.switch('sleep')

        def timer(d):
            return types.SimpleNamespace(subscribe=lambda on_completed=None, on_error=None, **k:
                                         w.timers.append((w.now + d, on_completed)))
        rx = types.SimpleNamespace(timer=timer)
        dt = w.datetime_ns()
        # count controller invocations after the notification (the real closure is wrapped where CreateMonitor receives it)
        real_create = monitor_mod.CreateMonitor

        def create_monitor(interval, action, cancelEvent, lastAction=True, name=None, default_polling_time=5.0):
            def counted(last):
                if w.notified_at is not None and not last:
                    w.controller_calls_after_notify += 1
                return action(last)
            return real_create(interval, counted, cancelEvent, lastAction=lastAction, name=name,
                               default_polling_time=default_polling_time)
        out_of_bound = False
        with Patch() as p:
            p.set(monitor_mod, 'threading', types.SimpleNamespace(Thread=InlineThread))
            p.set(monitor_mod, 'time', types.SimpleNamespace(sleep=sleep))
            p.set(monitor_mod, 'datetime', dt)
            p.set(monitor_mod, 'CreateMonitor', create_monitor)
            p.set(engine_mod, 'datetime', dt)
            p.set(engine_mod, 'reactivex', rx)
            p.set(engine_mod, 'archive_stream', lambda *a, **k: None)
            try:
                eng.run()
            except OutOfBound:
                out_of_bound = True
        detail = {'log': w.log, 'launches': w.launches, 'notified_at': w.notified_at, 'external_kill': w.killed_externally,
                  'options': {'producers': has_producers, 'check-producer-output': check_out, 'repeatRetries': retries,
                              'kill-after': die_after}, 'controller_calls_after_notify': w.controller_calls_after_notify,
                  'now': w.now}
        eff_retries = 3 if retries is None else retries
        if out_of_bound:
            # the bound on switch points ran out: legitimate only while the observer has no reason to stop yet
            if w.notified_at is not None:
                ctx.check(w.controller_calls_after_notify <= eff_retries + 2,
                          'after the producers finished the observer stops within repeatRetries + 2 further attempts', detail)
            return 'bound'
        ctx.witness('monitor_loop_ended')
        ctx.check(not eng.isAlive(), 'when the monitor loop ends the engine is not alive', detail)
        ctx.check(eng.exitReason() in ('Success', 'ResourceExhausted'), 'a stopped observer exits with Success or ResourceExhausted',
                  (eng.exitReason(), detail))
        ctx.check(w.notified_at is not None or w.killed_externally,
                  'the observer stops only after its producers finished or an external kill', detail)
        if w.notified_at is not None:
            ctx.check(w.controller_calls_after_notify <= eff_retries + 2,
                      'after the producers finished the observer stops within repeatRetries + 2 further attempts', detail)
        if w.notified_at is not None and not w.killed_externally and die_after is None:
            # it must not give up early: either an execution launched after the notification succeeded, or every
            # retry was used (each controller call after the notification that did not succeed consumes one)
            after = [(t, o) for t, o in w.launches if t >= w.notified_at]
            succeeded = any(o == 'Success' for t, o in after)
            ctx.check(succeeded or w.controller_calls_after_notify >= eff_retries + 1,
                      'the observer does not stop before an execution succeeded or its retries are used up', detail)
        if w.notified_at is not None and not w.killed_externally and eng.consume and die_after is None:
            ref = w.last_output if (has_producers and w.last_output is not None) else None
            ok = any(t >= (ref if ref is not None else w.notified_at) for t, _ in w.launches) if (ref is not None or True) else True
            late = [t for t, _ in w.launches if t >= (ref if ref is not None else 0.0)]
            ctx.witness('final_output_rule_checked')
            ctx.check(bool(late), 'after its producers finished the observer starts an execution that began after their last output',
                      detail)
        return (tuple(w.log), tuple(w.launches), eng.exitReason())
    return body


class _ProdDir(object):
    def __init__(self, w):
        self.w = w
        self.path = '/p'

    @property
    def output(self):
        return ['f'] if self.w.any_output else []

    def outputBeforeDate(self, d):
        return self.output


class _Producer(object):
    """A producer ComponentState as far as stageIn() is concerned: isAlive() and a real rx notifyFinished subject."""
    def __init__(self, name, alive):
        import reactivex.subject
        self.name = name
        self.alive = alive
        self.notifyFinished = reactivex.subject.Subject()
        self.specification = types.SimpleNamespace(reference='stage1.' + name)

    def isAlive(self):
        return self.alive


def body_stagein(ctx):
    """The real ComponentState.stageIn() subscription: the engine is told that all producers finished exactly once,
    after the last live producer finished - immediately when none is alive at stage-in."""
    import reactivex.scheduler
    import experiment.runtime.workflow as workflow
    from harness.rt_stubs import HComp
    n = ctx.choice('producers', [0, 1, 2, 3])
    prods = [_Producer('p%d' % i, ctx.flag('alive_at_stagein:p%d' % i)) for i in range(n)]
    job = FakeJob(1, 'obs', {'isRepeat': True, 'repeatRetries': 0, 'repeatInterval': 10})
    job.flowir_description = {'variables': {}}
    w = World(ctx, 1)
    eng = HRep(job, w)
    notified = []
    eng.notify_all_producers_finished = lambda: notified.append(len(notified))

    class Obs(HComp):
        producers = property(lambda self: list(prods))
    comp = Obs(job, eng)
    saved = workflow.ComponentState.componentScheduler
    workflow.ComponentState.componentScheduler = reactivex.scheduler.ImmediateScheduler()
    try:
        workflow.ComponentState.stageIn(comp, stageData=False)
        live = [p for p in prods if p.alive]
        detail = {'producers': [(p.name, p.alive) for p in prods]}
        if not live:
            ctx.witness('no_live_producer_at_stagein')
            ctx.check(notified == [0], 'an observer whose producers are all finished at stage-in is notified at once', (notified, detail))
            return ('immediate', n)
        ctx.check(notified == [], 'no notification while a producer is still alive', (notified, detail))
        order = list(live)
        while order:
            p = order.pop(ctx.choice('next_finished:%d' % len(order), list(range(len(order)))) if len(order) > 1 else 0)
            p.alive = False
            p.notifyFinished.on_next(({'isAlive': False, 'state': 'finished'}, p))
            p.notifyFinished.on_completed()
            if order:
                ctx.check(notified == [], 'no notification before the last live producer finished', (notified, detail, p.name))
        ctx.witness('notified_after_last_producer')
        ctx.check(notified == [0], 'the observer is notified exactly once after its last producer finished', (notified, detail))
        return ('after-last', n, len(live))
    finally:
        workflow.ComponentState.componentScheduler = saved


def factory(param):
    if param.get('name') == 'stage-in':
        return body_stagein
    return make_body(param['max_switch'])


def signature(param, assignment, message, detail):
    return message


def main(tier, seed, only=None):
    rep = Report('C13', tier, seed)
    max_switch = 8 if tier == 'quick' else 11
    max_paths = 350000 if tier == 'quick' else 12000000
    rep.functions = ['workflow.ComponentState.stageIn / _notifyProducersFinished (real rx merge/filter on an immediate scheduler)', 'engine.RepeatingEngine.run (EngineTaskController, schedule_next_instance)', 'monitor.CreateMonitor',
                     'RepeatingEngine.notify_all_producers_finished (+ kill-after callback)', 'RepeatingEngine.kill / exitReason / isAlive',
                     'Engine.canConsume', 'RepeatingEngine.nextRepeatInterval']
    rep.bounds = {'switch points (each sleep of the polling loop and each task wait)': max_switch,
                  'events per switch point': 'nothing / new producer output (<=2) / producers-finished notification (once) / external kill (once) / due timers',
                  'task outcomes': ['Success', 'KnownIssue', 'ResourceExhausted'], 'task duration': [1.0, 30.0],
                  'options': 'same-stage producers yes/no, check-producer-output, repeatRetries in None/0/1, kill-after delay None/12s, repeatInterval 10s',
                  'max_paths': max_paths}
    rep.outside = ['the rx pipeline between a producer\'s engine and its notifyFinished observable (stageIn is run on real rx Subjects standing for notifyFinished)',
                   'optimizer-chosen intervals', 'real polling jitter and threads', 'performance book-keeping']
    rep.assumptions = ['threading.Thread.start runs the monitor loop inline; time.sleep / Task.wait are the only switch points',
                       'fake clock: sleep(dt) advances dt, a task lasts 1 s or 30 s', 'reactivex.timer fires at the first switch point at or after its due time',
                       'no producer output appears after the producers-finished notification']
    rep.explanation = ('bounded symbolic execution (symx/z3) of the real RepeatingEngine.run / CreateMonitor loop as one history: the choice of the environment '
                       'choice at every switch point, task outcomes/durations and the options are solver variables')
    rep.required_witnesses = ['monitor_loop_ended', 'final_output_rule_checked', 'no_live_producer_at_stagein', 'notified_after_last_producer']
    s = explore_parallel('observer-histories', factory, [{'name': 'stage-in'}, {'max_switch': max_switch, 'name': 'switch-%d' % max_switch}],
                         signature=signature, seed=seed, chunk=300, max_paths=max_paths, validate=False)
    rep.add(s)
    return rep.finish()


def replay(v):
    st, msg, detail = replay_assignment(factory, v['param'], v['assignment'])
    print('replay: %s %s %s' % (st, msg, str(detail)[:2500]))
    return 1 if st == 'violation' else 0
