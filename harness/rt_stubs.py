"""Shared stubs for the runtime harnesses (C01, C02, C12, C13).

Real classes are sub-classed with __init__ bypassed so that the *methods* executed are
the ones of /repo's working tree; only reactivex plumbing, task generators and I/O are
replaced.  Every stub is listed in the evidence `assumptions`.
"""
import logging
import threading
import types

import experiment.model.codes as codes
import experiment.runtime.control as control
import experiment.runtime.engine as engine_mod
import experiment.runtime.workflow as workflow

FINAL = (codes.FINISHED_STATE, codes.FAILED_STATE, codes.SHUTDOWN_STATE)
REASONS = ['Success', 'KnownIssue', 'SystemIssue', 'SubmissionFailed', 'UnknownIssue', 'Killed',
           'Cancelled', 'ResourceExhausted']
assert sorted(REASONS) == sorted(codes.exitReasons), codes.exitReasons

_LOG = logging.getLogger('verif.stub')


class LazyMembership(object):
    """A list/set whose membership is decided (forked) the first time it is asked."""

    def __init__(self, ctx, name, universe, always=(), never=()):
        self.ctx = ctx
        self.name = name
        self.universe = list(universe)
        self.known = {}
        for a in always:
            self.known[a] = True
        for n in never:
            self.known[n] = False

    def __contains__(self, item):
        if item not in self.universe:
            return False
        if item not in self.known:
            self.known[item] = self.ctx.flag('%s:%s' % (self.name, item))
        return self.known[item]

    def __iter__(self):
        return iter([u for u in self.universe if u in self])

    def __len__(self):
        return len(list(iter(self)))

    def __repr__(self):
        return 'Lazy%s%r' % (self.name, self.known)


class FakeCompSpec(object):
    """Stands for graph.ComponentSpecification (only the attributes the runtime reads)."""

    def __init__(self, **kw):
        self.isAggregating = False
        self.isAggregatingLoopedNodes = False
        self.isLooping = False
        self.isReplicating = False
        self.workflowAttributes = {}
        self.commandDetails = {'executable': 'x'}
        self.__dict__.update(kw)


class FakeJob(object):
    """Stands for data.Job."""

    def __init__(self, stage, name, wfattrs=None, **kw):
        self.stageIndex = stage
        self.name = name
        self.reference = 'stage%d.%s' % (stage, name)
        self.identification = self.reference
        self.workflowAttributes = {'isRepeat': False, 'shutdownOn': [], 'restartHookOn': ['ResourceExhausted'],
                                   'maxRestarts': None, 'restartHookFile': None, 'repeatRetries': None,
                                   'optimizer': {'disable': True}}
        if wfattrs:
            self.workflowAttributes.update(wfattrs)
        self.componentSpecification = FakeCompSpec(workflowAttributes=self.workflowAttributes)
        self.isMigratable = False
        self.isStaged = False
        self.type = 'local'
        self.customAttributes = {}
        self.directory = '/nonexistent/verif/%s' % name
        self.executable = 'x'
        self.arguments = ''
        self.workflowGraph = types.SimpleNamespace(
            rootStorage=types.SimpleNamespace(instancePath='/nonexistent/verif/instance'))
        self.flowir_description = {'variables': {}}
        self.producerInstances = []
        self.__dict__.update(kw)

    @property
    def isRepeat(self):
        return self.workflowAttributes['isRepeat']

    def repeatInterval(self):
        return self.workflowAttributes.get('repeatInterval', 10)


class HEngine(engine_mod.Engine):
    """Real Engine.restart/_setExitReason/isAlive/exitReason/returncode/kill/shutdown;
    the rx based run() is replaced by a recorder that makes the engine alive again."""

    def __init__(self, job, on_run=None):
        self.job = job
        self.log = _LOG
        self.process = None
        self._exitReason = None
        self._shutdown = False
        self.restarts = 0
        self._resubmissionAttempts = 0
        self._runCalled = None
        self._consume = False
        self._termination_subject = None
        self.run_calls = 0
        self.kill_calls = 0
        self.on_run = on_run
        self.on_kill = None

    def _create_termination_observable(self):
        pass

    def emit_now(self, what=None):
        pass

    def run(self, startObservable=None):
        self._runCalled = True
        self._consume = True
        self.run_calls += 1
        if self.on_run:
            self.on_run(self)

    def kill(self):
        # real semantic: asynchronous; the harness decides when the Killed exit lands
        if self.isAlive():
            self.kill_calls += 1
            if self.on_kill:
                self.on_kill(self)


class HComp(workflow.ComponentState):
    """Real state/isAlive/finish/run/restart/finishCalled; rx observables replaced."""

    def __init__(self, job, eng, sched=None):
        self._specification = job
        self.controllerState = None
        self.log = _LOG
        self.repeatingDisposable = None
        self.repeatingObservable = None
        self._finishedCalled = False
        self._engine = eng
        self.stagein_calls = 0
        self.run_calls = 0
        self.sched = sched
        self.pm_subscribers = []

    def stageIn(self, stageData=True):
        self.stagein_calls += 1
        if self.sched is not None:
            self.sched.on_stagein(self)

    def run(self):
        self.run_calls += 1
        if self.sched is not None:
            self.sched.on_run_call(self)
        workflow.ComponentState.run(self)

    @property
    def notifyPostMortem(self):
        return _StubObservable(self, 'postmortem')

    @property
    def notifyFinished(self):
        return _StubObservable(self, 'finished')

    @property
    def producers(self):
        return []

    def __repr__(self):
        return 'HComp(%s)' % self._specification.reference

    def __hash__(self):
        return id(self)

    def __eq__(self, o):
        return self is o


class _StubObservable(object):
    """Stands for ComponentState.notifyFinished / notifyPostMortem: records (operators, callbacks) per subscription;
    the scheduler harness later feeds emissions through the *real* rx operators synchronously."""

    def __init__(self, comp, kind, ops=()):
        self.comp = comp
        self.kind = kind
        self.ops = tuple(ops)

    def pipe(self, *ops):
        return _StubObservable(self.comp, self.kind, self.ops + tuple(ops))

    def subscribe(self, on_next=None, on_error=None, on_completed=None):
        if self.comp.sched is not None:
            self.comp.sched.on_subscribe(self.comp, self.kind, on_next, self.ops, on_error)
        elif self.kind == 'postmortem':
            self.comp.pm_subscribers.append(on_next)
        return None


class StubTracker(object):
    def __init__(self, answer):
        self.answer = answer   # callable -> bool

    def isSystemStable(self, interval):
        return self.answer()

    def printStatus(self, details=False):
        pass


def new_controller():
    c = object.__new__(control.Controller)
    c.log = _LOG
    c._max_resubmission_attempts = 5
    c.stop_executing = False
    c.cdb = None
    c._memoization_fuzzy = False
    c.enable_optimizer = False
    c.optimizer_repeat = None
    c.do_stage_data = None
    c.do_restart_sources = None
    c.comp_lock = threading.RLock()
    c.opt_lock = threading.RLock()
    c.comp_staged_in = set()
    c.comp_done = set()
    c.comp_condition_to_dowhile = {}
    c._scheduler_sleeps = False
    c._start_sleeping = False
    c._component_finished_while_sleeping = []
    c._stageStates = {}
    c.migratedComponents = []
    c._instantiated_components = []
    c.currentStage = types.SimpleNamespace(index=0, name='stage0', directory='/nonexistent')
    c._starting_index = 0
    c.controllerPool = None
    return c


class Patch(object):
    """Temporarily replace attributes of modules/objects (restored on exit)."""

    def __init__(self):
        self.saved = []

    def set(self, obj, name, value):
        missing = object()
        old = obj.__dict__.get(name, missing) if hasattr(obj, '__dict__') else getattr(obj, name, missing)
        self.saved.append((obj, name, old, missing))
        setattr(obj, name, value)

    def __enter__(self):
        return self

    def __exit__(self, *a):
        for obj, name, old, missing in reversed(self.saved):
            if old is missing:
                try:
                    delattr(obj, name)
                except AttributeError:
                    pass
            else:
                setattr(obj, name, old)
        self.saved = []
        return False
