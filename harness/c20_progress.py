"""C20 -- reported progress is a proper weighted fraction (engines E3 + E1).

The statements of the real functions are lifted from their AST on every run (symx.astsym) and
executed over z3 Float64 / BitVec terms; path feasibility, assertions and models are decided by z3
through the symx Explorer; every path is re-validated natively with Python floats, where the result
of the lifted block is also compared with the real function (translator validation).  Lemmas over a
symbolic stage count are discharged by z3 and cross-checked by the cvc5 binary on the dumped SMT-LIB2.
"""
import ast
import inspect
import logging
import math
import os
import subprocess
import tempfile
import textwrap
import time
import types

import z3

import experiment.runtime.control as control
import experiment.runtime.output as output
from experiment.model.frontends.flowir import FlowIR

from symx.astsym import Interp, SymRaise, Unsupported, F64, RNE, is_sym, to_fp, BVW
from symx.core import fp_value_to_float
from symx.runner import explore_parallel, Report, replay_assignment, Section, VERIF

EPS = 2.0 ** -52


# ------------------------------------------------------------------ lifting
def _fn_ast(fn):
    return ast.parse(textwrap.dedent(inspect.getsource(fn)))


def lift_inject_block():
    tree = _fn_ast(FlowIR.inject_default_values)
    for node in ast.walk(tree):
        if isinstance(node, ast.If) and isinstance(node.test, ast.Name) and node.test.id == 'num_stages':
            return node.body
    raise Unsupported('stage-weight block of FlowIR.inject_default_values not found')


def lift_monitor_block():
    tree = _fn_ast(output.StatusMonitor.__init__)
    body = tree.body[0].body
    start = end = None
    for i, s in enumerate(body):
        if isinstance(s, ast.Assign) and isinstance(s.targets[0], ast.Name) and s.targets[0].id == 'fallbackWeight':
            start = i
        if isinstance(s, ast.Assign) and isinstance(s.targets[0], ast.Attribute) and s.targets[0].attr == 'stageWeights':
            end = i
    if start is None or end is None or end < start:
        raise Unsupported('weight block of StatusMonitor.__init__ not found')
    return body[start:end + 1]


def lift_accumulation_block():
    tree = ast.parse(inspect.getsource(output))
    for node in ast.walk(tree):
        if isinstance(node, ast.FunctionDef) and node.name == 'CheckStatus':
            stmts = []

            def flat(b):
                for s in b:
                    yield s
                    for f in ('body', 'orelse'):
                        if isinstance(s, (ast.With, ast.If, ast.Try)) and hasattr(s, f):
                            for x in flat(getattr(s, f)):
                                yield x
            seq = list(flat(node.body))
            for i, s in enumerate(seq):
                if isinstance(s, ast.Assign) and isinstance(s.targets[0], ast.Name) and \
                        s.targets[0].id == 'stage_status':
                    out = [s]
                    for t in seq[i + 1:]:
                        if isinstance(t, ast.For) and any(isinstance(x, ast.AugAssign) for x in t.body):
                            out.append(t)
                    if len(out) == 3:
                        return out
    raise Unsupported('accumulation loops of StatusMonitor.CheckStatus not found')


def lift_stage_status_expr():
    tree = _fn_ast(control.Controller.get_stage_status)
    for node in ast.walk(tree):
        if isinstance(node, ast.Assign) and isinstance(node.targets[0], ast.Name) and \
                node.targets[0].id == 'status_report':
            return node.value
    raise Unsupported('status_report expression of Controller.get_stage_status not found')


class _FlowIRNames(object):
    FieldStatusReport = FlowIR.FieldStatusReport


def run_inject(ctx, n, sr):
    env = {'num_stages': n, 'flowir': {FlowIR.FieldStatusReport: sr}, 'self': _FlowIRNames,
           'flowirLogger': None}
    Interp(ctx, env).run(lift_inject_block())
    return [sr[i]['stage-weight'] for i in range(n)]


def run_monitor(ctx, weights):
    n = len(weights)
    me = types.SimpleNamespace(commands={'stage%d' % i: None for i in range(n)}, log=None, stageWeights=None)
    status_report = {i: {'stage-weight': w} for i, w in enumerate(weights)}
    import functools
    import operator as _op
    env = {'self': me, 'status_report': status_report, 'operator': _op, 'reduce': functools.reduce}
    Interp(ctx, env).run(lift_monitor_block())
    return me.stageWeights


def run_accumulate(ctx, weights, active, finished):
    me = types.SimpleNamespace(stageWeights=weights)
    env = {'self': me, 'active_stages': active, 'stages_finished': finished}
    Interp(ctx, env).run(lift_accumulation_block())
    return env['stage_status']


def real_inject(n, given):
    d = {'components': [{'stage': i, 'name': 'c%d' % i, 'command': {'executable': 'ls'}} for i in range(n)],
         'status-report': given}
    out = FlowIR.from_dict(d).inject_default_values()
    return [out['status-report'][i]['stage-weight'] for i in range(n)]


# ------------------------------------------------------------------ helpers on values (term or float)
def fsum(xs):
    out = 0.0
    for x in xs:
        out = (z3.fpAdd(RNE, to_fp(out), to_fp(x)) if (is_sym(out) or is_sym(x)) else out + x)
    return out


def thousandths(ctx, w):
    """int(w*1000) for a finite w (term or float)."""
    if is_sym(w):
        return z3.fpToSBV(z3.RTZ(), z3.fpMul(RNE, w, z3.FPVal(1000.0, F64)), z3.BitVecSort(BVW))
    return int(w * 1000)


def B(x):
    return x if is_sym(x) else z3.BoolVal(bool(x))


def ge0(w):
    return z3.fpGEQ(w, z3.FPVal(0.0, F64)) if is_sym(w) else (w >= 0)


def close(a, b, tol):
    if is_sym(a) or is_sym(b):
        d = z3.fpAbs(z3.fpSub(RNE, to_fp(a), to_fp(b)))
        return z3.fpLEQ(d, z3.FPVal(tol, F64))
    return abs(a - b) <= tol


def same(a, b):
    if is_sym(a) or is_sym(b):
        return z3.fpEQ(to_fp(a), to_fp(b))
    return a == b


def three_dec(ctx, w):
    """w is exactly k/1000.0 for k = int(w*1000)."""
    if is_sym(w):
        k = thousandths(ctx, w)
        return z3.And(z3.Not(z3.fpIsNaN(w)), z3.Not(z3.fpIsInf(w)),
                      z3.fpEQ(w, z3.fpDiv(RNE, z3.fpSignedToFP(RNE, k, F64), z3.FPVal(1000.0, F64))))
    return math.isfinite(w) and w == int(w * 1000) / 1000.0


def and_(*xs):
    if any(is_sym(x) for x in xs):
        return z3.And(*[B(x) for x in xs])
    return all(xs)


def or_(*xs):
    if any(is_sym(x) for x in xs):
        return z3.Or(*[B(x) for x in xs])
    return any(xs)


def not_(x):
    return z3.Not(x) if is_sym(x) else (not x)


KINDS = ['given', 'no-entry', 'no-key']


def body_inject(n, wmax, special, thousandth_inputs=False):
    def body(ctx):
        sr = {}
        given = {}
        terms = {}
        for i in range(n):
            k = ctx.choice('kind%d' % i, KINDS)
            if k == 'given' and thousandth_inputs:
                kk = ctx.bv('k%d' % i, BVW)
                lim = int(wmax * 1000)
                if ctx.symbolic:
                    ctx.assume(z3.And(kk >= -lim, kk <= lim))
                    w = z3.fpDiv(RNE, z3.fpSignedToFP(RNE, kk, F64), z3.FPVal(1000.0, F64))
                    # lemma L1 (discharged by z3 and cvc5 in this same run) used as a rewrite rule
                    ctx.assume(thousandths(ctx, w) == kk)
                else:
                    ctx.assume(-lim <= kk <= lim)
                    w = kk / 1000.0
                sr[i] = {'stage-weight': w}
                given[i] = {'stage-weight': w}
                terms[i] = w
            elif k == 'given':
                w = ctx.fp('w%d' % i)
                if ctx.symbolic:
                    fin = z3.And(z3.Not(z3.fpIsNaN(w)), z3.Not(z3.fpIsInf(w)),
                                 z3.fpLEQ(z3.fpAbs(w), z3.FPVal(wmax, F64)))
                    ctx.assume(z3.Or(fin, z3.fpIsNaN(w), z3.fpIsInf(w)) if special else fin)
                sr[i] = {'stage-weight': w}
                given[i] = {'stage-weight': w}
                terms[i] = w
            elif k == 'no-key':
                sr[i] = {}
                given[i] = {}
        raised = None
        try:
            W = run_inject(ctx, n, sr)
        except SymRaise as e:
            raised = e.name
        except (ValueError, OverflowError) as e:
            raised = type(e).__name__
        if not ctx.symbolic:
            # translator validation: the lifted block and the real function agree on this input
            try:
                R = real_inject(n, given)
                rr = None
            except (ValueError, OverflowError) as e:
                R, rr = None, type(e).__name__
            if rr != raised or (raised is None and [repr(float(x)) for x in R] != [repr(float(x)) for x in W]):
                raise RuntimeError('lifted block disagrees with FlowIR.inject_default_values: %r/%r vs %r/%r'
                                   % (W if raised is None else None, raised, R, rr))
        ctx.check(raised is None, 'malformed (non-finite) stage weight is handled, not raised', raised)
        ctx.witness('inject_ran')
        gw = [terms[i] for i in sorted(terms)]
        if thousandth_inputs:
            all3 = True
        else:
            all3 = and_(*[three_dec(ctx, w) for w in gw]) if gw else True
        # (A) non-negative
        ctx.check(and_(*[ge0(w) for w in W]), 'stage weights are non-negative')
        # (B) thousandths add up exactly
        ts = [thousandths(ctx, w) for w in W]
        tot = ts[0]
        for t in ts[1:]:
            tot = tot + t
        ctx.check(tot == 1000, 'thousandths of the stage weights add up to 1000')
        # (C) float sum is one (for given weights written with <= 3 decimals; otherwise see finding)
        S = fsum(W)
        tol = n * EPS
        c_ok = close(S, 1.0, tol)
        if all3 is True:
            ctx.check(c_ok, 'stage weights sum to one')
        else:
            # weights with <= 3 decimals are decided by the thousandth-input variant of this harness
            ctx.check(or_(all3, c_ok), 'stage weights sum to one [given weights with more than 3 decimals]')
        # (D) given weights that already sum to one are kept
        if len(gw) == n:
            pre = and_(close(fsum(gw), 1.0, tol), *[ge0(w) for w in gw])
            kept = and_(*[same(a, b) for a, b in zip(W, gw)])
            if all3 is True:
                ctx.check(or_(not_(pre), kept), 'given weights that sum to one are kept')
                if ctx.branch(pre):
                    ctx.witness('kept_given_weights')
            else:
                ctx.check(or_(not_(pre), all3, kept),
                          'given weights that sum to one are kept [given weights with more than 3 decimals]')
        return None
    return body


def body_monitor(n):
    """StatusMonitor.__init__ keeps weights whose thousandths add up to 1000 (what the loader produces)."""
    def body(ctx):
        ws = []
        for i in range(n):
            w = ctx.fp('w%d' % i)
            if ctx.symbolic:
                ctx.assume(z3.And(z3.Not(z3.fpIsNaN(w)), z3.Not(z3.fpIsInf(w)), z3.fpGEQ(w, z3.FPVal(0.0, F64)),
                                  z3.fpLEQ(w, z3.FPVal(2.0, F64))))
            ws.append(w)
        ts = [thousandths(ctx, w) for w in ws]
        tot = ts[0]
        for t in ts[1:]:
            tot = tot + t
        ctx.assume(tot == 1000)
        out = run_monitor(ctx, list(ws))
        ctx.witness('monitor_ran')
        ctx.check(and_(*[same(a, b) for a, b in zip(out, ws)]), 'StatusMonitor keeps the loaded stage weights')
        return None
    return body


def body_accumulate(n):
    """CheckStatus accumulation for weights k_i/1000.0 with sum k_i = 1000."""
    def body(ctx):
        ks, ws = [], []
        for i in range(n):
            k = ctx.bv('k%d' % i, BVW)
            if ctx.symbolic:
                ctx.assume(z3.And(k >= 0, k <= 1000))
                w = z3.fpDiv(RNE, z3.fpSignedToFP(RNE, k, F64), z3.FPVal(1000.0, F64))
            else:
                ctx.assume(0 <= k <= 1000)
                w = k / 1000.0
            ks.append(k)
            ws.append(w)
        tot = ks[0]
        for k in ks[1:]:
            tot = tot + k
        ctx.assume(tot == 1000)
        active, finished = {}, []
        for i in range(n):
            ph = ctx.choice('phase%d' % i, ['finished', 'active', 'not-started'])
            if ph == 'finished':
                finished.append(i)
            elif ph == 'active':
                p = ctx.fp('p%d' % i)
                if ctx.symbolic:
                    ctx.assume(z3.And(z3.fpGEQ(p, z3.FPVal(0.0, F64)), z3.fpLEQ(p, z3.FPVal(1.0, F64))))
                else:
                    ctx.assume(0.0 <= p <= 1.0)
                active[i] = p
        total = run_accumulate(ctx, ws, active, finished)
        ctx.witness('accumulate_ran')
        tol = n * EPS
        if is_sym(total):
            ctx.check(z3.And(z3.fpGEQ(total, z3.FPVal(0.0, F64)), z3.fpLEQ(total, z3.FPVal(1.0 + tol, F64))),
                      'total progress lies in [0, 1] (tolerance n*2^-52)')
        else:
            ctx.check(0.0 <= total <= 1.0 + tol, 'total progress lies in [0, 1] (tolerance n*2^-52)', total)
        if len(finished) == n:
            ctx.witness('all_finished')
            ctx.check(close(total, 1.0, tol), 'total progress is one once every stage has completed', None)
        return None
    return body


class _StatusFile(object):
    """Stands for the status file of the experiment: records what CheckStatus reports."""

    def __init__(self):
        self.total = None
        self.stage_progress = None

    def setTotalProgress(self, v):
        self.total = v

    def totalProgress(self):
        return self.total

    def setStageProgress(self, v):
        self.stage_progress = v

    def stageProgress(self):
        return self.stage_progress if self.stage_progress is not None else 0.0

    def stageState(self):
        return 'running'

    def update(self):
        pass

    def __getattr__(self, name):
        if name.startswith('set'):
            return lambda *a, **k: None
        raise AttributeError(name)


def body_controller(n):
    """The real StatusMonitor.run/CheckStatus + compute_stage_status on the real Controller.get_stages_finished /
    get_stages_in_transit / get_stage_status / get_components_in_stage / initialise, for a workflow that starts (or is
    restarted) at any stage, with every component of the remaining stages finished-and-observed, finished-not-yet-
    observed, running or failed."""
    import threading
    import types
    import networkx
    import experiment.model.codes as codes
    import experiment.runtime.monitor as monitor
    from harness.rt_stubs import new_controller, HComp, HEngine, FakeJob, Patch, StubTracker

    def body(ctx):
        start = ctx.choice('starting_stage', list(range(n)))
        cur = ctx.choice('current_stage', list(range(start, n)))
        wkind = ctx.choice('weights', ['equal', 'front', 'back'])
        if wkind == 'equal':
            ks = [1000 // n] * n
            ks[-1] += 1000 - sum(ks)
        elif wkind == 'front':
            ks = [1000 - 100 * (n - 1)] + [100] * (n - 1)
        else:
            ks = [0] * (n - 1) + [1000]
        weights = [k / 1000.0 for k in ks]
        g = networkx.DiGraph()
        comps = {}
        for i in range(n):
            for j in range(2 if i % 2 == 0 else 1):
                job = FakeJob(i, 'c%d' % j)
                comp = HComp(job, HEngine(job))
                comps[job.reference] = comp
                g.add_node(job.reference, stageIndex=i, component=(lambda c=comp: c))
        ctl = new_controller()
        ctl.experiment = types.SimpleNamespace(experimentGraph=types.SimpleNamespace(graph=g, _placeholders={}, _documents={}),
                                               numStages=lambda: n)
        ctl._stageStates = {i: types.SimpleNamespace(state=codes.RUNNING_STATE) for i in range(n)}
        ctl.currentStage = None
        ctl.generate_status_report_for_nodes = lambda *a, **k: ''
        stages = [types.SimpleNamespace(index=i, name='stage%d' % i, referenceName='stage%d' % i) for i in range(n)]
        # the real restart bookkeeping: stages before the starting one are marked finished by Controller.initialise
        ctl.initialise(stages[start], None)
        ctl.currentStage = stages[cur]
        all_completed = True
        for ref, comp in comps.items():
            i = comp.specification.stageIndex
            if i < start:
                continue
            if i > cur:
                ph = ctx.choice('phase:' + ref, ['running', 'finished+observed'])
            else:
                ph = ctx.choice('phase:' + ref, ['finished+observed', 'finished', 'running', 'failed+observed'])
            if ph in ('finished', 'finished+observed'):
                comp.controllerState = codes.FINISHED_STATE
            elif ph == 'failed+observed':
                comp.controllerState = codes.FAILED_STATE
            else:
                comp.controllerState = codes.RUNNING_STATE
            if ph.endswith('+observed'):
                ctl.comp_done.add(ref)
            if ph != 'finished+observed':
                all_completed = False
        mon = object.__new__(output.StatusMonitor)
        mon.log = logging.getLogger('verif')
        mon.mtx_compute_status = threading.RLock()
        mon._status_database = None
        mon.report_components = False
        mon.last_status_report = None
        mon.commands = {'stage%d' % i: None for i in range(n)}
        mon.stageWeights = list(weights)
        mon.statusFile = _StatusFile()
        mon.repeatInterval = 30.0
        mon._condition_stopped = threading.Event()
        mon.exceptionTracker = StubTracker(lambda: True)
        exp = types.SimpleNamespace(_stages=stages, instanceDirectory=types.SimpleNamespace(mtx_output=threading.RLock()))
        mon.weakExperiment = lambda: exp
        with Patch() as p:
            p.set(monitor, 'CreateMonitor', lambda interval, action, cancelEvent=None, name=None, **kw: (lambda: action(True)))
            mon.run(ctl)
        total = mon.statusFile.total
        detail = {'stages': n, 'starting_stage': start, 'current_stage': cur, 'weights': weights, 'total': total,
                  'finished': ctl.get_stages_finished(), 'in_transit': ctl.get_stages_in_transit()}
        ctx.witness('status_check_ran')
        ctx.check(total is not None, 'the status check reports a total progress', detail)
        tol = n * EPS
        ctx.check(0.0 <= total <= 1.0 + tol, 'total progress lies in [0, 1] (tolerance n*2^-52)', detail)
        expected_done = sum(weights[i] for i in range(start))
        ctx.check(total >= expected_done - tol, 'stages skipped by a restart count as completed', detail)
        if all_completed:
            ctx.witness('all_completed_after_restart' if start > 0 else 'all_completed')
            ctx.check(abs(total - 1.0) <= tol, 'total progress is one once every stage has completed', detail)
        return None
    return body


def factory(param):
    k = param['kind']
    if k == 'controller':
        return body_controller(param['n'])
    if k == 'inject':
        return body_inject(param['n'], param['wmax'], param['special'], param.get('k3', False))
    if k == 'monitor':
        return body_monitor(param['n'])
    return body_accumulate(param['n'])


def signature(param, assignment, message, detail):
    return '%s|n=%s|%s' % (param['kind'], param['n'], message)


# ------------------------------------------------------------------ lemmas over a symbolic stage count
def _cvc5(smt2, timeout):
    fd, path = tempfile.mkstemp(suffix='.smt2')
    try:
        with os.fdopen(fd, 'w') as f:
            f.write(smt2)
        try:
            r = subprocess.run(['cvc5', '--tlimit=%d' % (timeout * 1000), path], capture_output=True, text=True,
                               timeout=timeout + 10)
        except subprocess.TimeoutExpired:
            return 'timeout'
        out = (r.stdout + r.stderr).strip()
        if '(error' in out:
            return 'error'
        for tok in ('unsat', 'sat', 'unknown'):
            if tok in out.split():
                return tok
        return 'timeout' if 'interrupted' in out or not out else 'unknown'
    finally:
        os.unlink(path)


class _NoBranch(object):
    symbolic = True

    def branch(self, t):
        raise Unsupported('branch inside a lemma expression')


def lemmas(rep, tier):
    """Each lemma: negation must be unsat.  Expressions are taken from the AST of the real code."""
    nmax = 4096
    block = lift_inject_block()
    exprs = {}
    for node in ast.walk(ast.Module(body=block, type_ignores=[])):
        if isinstance(node, ast.ListComp) and isinstance(node.elt, ast.Call) and \
                getattr(node.elt.func, 'id', None) == 'int':
            exprs['thousandths'] = (node.generators[0].target.id, node.elt)
        if isinstance(node, ast.Assign) and isinstance(node.targets[0], ast.Name) and \
                node.targets[0].id == 'fallbackWeight':
            exprs['fallback'] = node.value
        if isinstance(node, ast.Assign) and isinstance(node.targets[0], ast.Subscript) and \
                isinstance(node.value, ast.BinOp) and isinstance(node.value.op, ast.Div) and \
                isinstance(node.value.left, ast.BinOp):
            exprs['last'] = node.value
    missing = [k for k in ('thousandths', 'fallback', 'last') if k not in exprs]
    if missing:
        raise Unsupported('fallback expressions not found in inject_default_values: %s' % missing)

    class Free(object):
        """int() inside lemma expressions: the argument is finite by construction."""
        symbolic = True

        def branch(self, t):
            return False

    def ev(e, env):
        return Interp(Free(), dict(env)).expr(e)

    n = z3.BitVec('n', BVW)
    k = z3.BitVec('k', BVW)
    var, telt = exprs['thousandths']
    T = lambda w: ev(telt, {var: w})
    q = z3.BitVec('q', BVW)
    fb = ev(exprs['fallback'], {'num_stages': n})
    last = ev(exprs['last'], {'num_stages': n})
    n_ok = z3.And(n >= 1, n <= nmax)
    qdef = q == z3.UDiv(z3.BitVecVal(1000, BVW), n)
    L = [
        ('L1 forall k in [-1000,1000]: int((k/1000.0)*1000) == k   [a weight written with <=3 decimals is read back exactly]',
         z3.And(k >= -1000, k <= 1000, T(z3.fpDiv(RNE, z3.fpSignedToFP(RNE, k, F64), z3.FPVal(1000.0, F64))) != k)),
        ('L2 forall n in [1,%d]: thousandths(fallbackWeight) == 1000 div n' % nmax,
         z3.And(n_ok, qdef, T(fb) != q)),
        ('L3 forall n: thousandths(last weight) == 1000 - (n-1)*(1000 div n), and last weight >= 0',
         z3.And(n_ok, qdef, z3.Or(T(last) != 1000 - (n - 1) * q, z3.Not(z3.fpGEQ(last, z3.FPVal(0.0, F64))),
                                  z3.Not(z3.fpGEQ(fb, z3.FPVal(0.0, F64)))))),
    ]
    # get_stage_status
    sse = lift_stage_status_expr()
    f = z3.BitVec('finished', BVW)
    t = z3.BitVec('total', BVW)

    def ev_ss():
        return Interp(Free(), {'len_finished': f, 'total': t}).expr(sse)
    r = ev_ss()
    dom = z3.And(t >= 1, t <= 2 ** 20, f >= 0, f <= t)
    L.append(('L5 forall 0<=finished<=total<=2^20: stage progress finished/float(total) in [0,1], and == 1 iff all finished',
              z3.And(dom, z3.Or(z3.Not(z3.fpGEQ(r, z3.FPVal(0.0, F64))), z3.Not(z3.fpLEQ(r, z3.FPVal(1.0, F64))),
                                z3.fpEQ(r, z3.FPVal(1.0, F64)) != (f == t)))))
    es = rep.engine_stats
    es.setdefault('lemmas', [])
    tmo = 150 if tier == 'quick' else 900
    jobs = []
    for name, neg in L:
        s = z3.Solver()
        s.add(neg)
        smt2 = '(set-logic QF_BVFP)\n' + s.to_smt2()
        jobs.append((name, 'z3', smt2, tmo))
        jobs.append((name, 'cvc5', smt2, tmo))
    import concurrent.futures as cf
    import multiprocessing as mp
    pool = cf.ProcessPoolExecutor(max_workers=len(jobs), mp_context=mp.get_context('fork'))
    futs = [pool.submit(_solve_job, j) for j in jobs]
    return lambda: _lemmas_finish(rep, L, jobs, pool, futs)


def _lemmas_finish(rep, L, jobs, pool, futs):
    es = rep.engine_stats
    res = {}
    for f in futs:
        name, solver, r, dt, model = f.result()
        res[(name, solver)] = (r, dt, model)
    pool.shutdown()
    for name, neg in L:
        r3, dt, model = res[(name, 'z3')]
        r5, dt5, _ = res[(name, 'cvc5')]
        rec = {'lemma': name, 'z3': r3, 'z3_s': round(dt, 2), 'cvc5': r5, 'cvc5_s': round(dt5, 2)}
        es['lemmas'].append(rec)
        es['evaluations'] = es.get('evaluations', 0) + 1
        es['distinct_nontrivial'] = es.get('distinct_nontrivial', 0) + 1
        es['obligations'] = es.get('obligations', 0) + 1
        es['queries'] = es.get('queries', 0) + 2
        es['solver_s'] = es.get('solver_s', 0.0) + dt + dt5
        rep.notes.append('lemma %s: z3=%s (%.1fs) cvc5=%s (%.1fs)' % (name.split()[0], r3, dt, r5, dt5))
        if r3 == 'sat' or r5 == 'sat':
            rep.extra_violations.append({'key': 'lemma|' + name.split()[0], 'message': name, 'model': model,
                                         'section': 'lemmas'})
        elif r3 == 'unsat' and r5 in ('unsat', 'timeout', 'unknown'):
            es['discharged'] = es.get('discharged', 0) + 1
            if r5 != 'unsat':
                es.setdefault('inconclusive', []).append({'lemma': name, 'note': 'cvc5 cross-check %s' % r5})
        elif r3 != 'unsat' and r5 == 'unsat':
            es['discharged'] = es.get('discharged', 0) + 1
            es.setdefault('inconclusive', []).append({'lemma': name, 'note': 'z3 %s, cvc5 unsat' % r3})
        else:
            es.setdefault('inconclusive', []).append({'lemma': name, 'z3': r3, 'cvc5': r5})
            es['exhaustive'] = False
    rep.samples.append({'lemma': L[0][0], 'smt2_bytes': len(jobs[0][2])})


def _solve_job(job):
    name, solver, smt2, tmo = job
    t0 = time.time()
    model = None
    if solver == 'cvc5':
        r = _cvc5(smt2, tmo)
    else:
        s = z3.Solver()
        s.set('timeout', tmo * 1000)
        s.from_string(smt2)
        r = str(s.check())
        if r == 'sat':
            m = s.model()
            model = {str(d): str(m[d]) for d in m.decls()}
    return name, solver, r, time.time() - t0, model


def validate_translator(rep):
    """Push concrete inputs through both the real function and the lifted block (no solver)."""
    from symx.core import ConcreteCtx
    import random
    rnd = random.Random(1)
    n_cases = 0
    for n in list(range(1, 41)) + [64, 100, 333, 999, 1000, 1001, 1500]:
        cases = [{}]
        for _ in range(4):
            ks = [rnd.randint(0, 1000) for _ in range(n)]
            cases.append({i: {'stage-weight': ks[i] / 1000.0} for i in range(n)})
        if n <= 10:
            parts = [1000 // n] * n
            parts[-1] += 1000 - sum(parts)
            cases.append({i: {'stage-weight': parts[i] / 1000.0} for i in range(n)})
            cases.append({i: {'stage-weight': str(parts[i] / 1000.0)} for i in range(n)})
        for given in cases:
            import copy
            sr = copy.deepcopy(given)
            W = run_inject(ConcreteCtx({}), n, sr)
            R = real_inject(n, copy.deepcopy(given))
            n_cases += 1
            if [repr(float(x)) for x in W] != [repr(float(x)) for x in R]:
                rep.harness_errors.append({'message': 'translator validation failed for n=%d given=%r: %r vs %r'
                                                      % (n, given, W, R)})
                return
    rep.engine_stats['translator_validation_cases'] = n_cases
    rep.engine_stats['validated'] = rep.engine_stats.get('validated', 0) + n_cases


def main(tier, seed, only=None):
    rep = Report('C20', tier, seed)
    rep.functions = ['FlowIR.inject_default_values (stage-weight block, lifted from its AST)',
                     'output.StatusMonitor.__init__ (weight block, lifted)',
                     'output.StatusMonitor.CheckStatus (accumulation loops, lifted)',
                     'control.Controller.get_stage_status (progress expression, lifted)',
                     'output.StatusMonitor.run / CheckStatus / compute_stage_status (executed as they are, on a stub experiment)',
                     'control.Controller.initialise / get_stages_finished / get_stages_in_transit / get_stage_status / '
                     'get_components_in_stage / get_nodes_in_stage / node_is_active (executed as they are)']
    N = 2 if tier == 'quick' else 3
    rep.bounds = {'stages_unrolled_symbolic_weights': N, 'weight_domain': 'any double with |w| <= 4.0, plus NaN and +-inf (free-double variant); k/1000.0 with integer |k| <= 1000 (three-decimal variant, uses lemma L1 as a rewrite rule); '
                  'entries given / missing / no stage-weight key',
                  'lemmas': 'stage count n in [1,4096] symbolic (64-bit bit-vector), thousandths k in [0,1000]',
                  'accumulation': 'n <= %d stages, weights k_i/1000.0 with symbolic k_i summing to 1000, progress p_i any double in [0,1], '
                                  'each stage finished/active/not started' % N,
                  'tolerance': 'sum to one / equals one read as |x-1| <= n*2^-52'}
    rep.outside = ['non-float stage-weight values (rejected by the FlowIR schema)', 'stage counts > 4096 in the lemmas, > %d stages with simultaneously symbolic weights' % N,
                   'weights with magnitude above 4.0 (finite)', 'status scripts producing progress outside [0,1]']
    rep.assumptions = ['logging statements are not executed by the lifted blocks', 'z3 Float64 semantics = IEEE-754 binary64 RNE = CPython float',
                       'float("0.kkk") equals k/1000.0 (both correctly rounded)',
                       'native re-validation compares the lifted block with the real FlowIR.inject_default_values on every path model']
    rep.explanation = ('statements lifted from the AST of the real functions on every run and executed over z3 Float64/BitVec terms '
                       '(symx Explorer decides path feasibility and assertions with z3); lemmas over a symbolic stage count '
                       'discharged by z3 and cross-checked by cvc5')
    rep.required_witnesses = ['inject_ran', 'kept_given_weights', 'monitor_ran', 'accumulate_ran', 'all_finished',
                              'status_check_ran', 'all_completed', 'all_completed_after_restart']
    try:
        validate_translator(rep)
        finish_lemmas = lemmas(rep, tier)
    except Unsupported as e:
        rep.harness_errors.append({'message': 'lifting failed: %s' % e})
        return rep.finish()
    params = []
    for n in range(1, N + 1):
        params.append({'kind': 'inject', 'n': n, 'wmax': 4.0, 'special': True, 'name': 'inject-%d' % n})
        params.append({'kind': 'inject', 'n': n, 'wmax': 1.0, 'special': False, 'k3': True, 'name': 'inject3dec-%d' % n})
        params.append({'kind': 'monitor', 'n': n, 'name': 'monitor-%d' % n})
        params.append({'kind': 'accumulate', 'n': n, 'name': 'accumulate-%d' % n})
    if only:
        params = [p for p in params if p['name'] in only or p['kind'] in only]
        rep.required_witnesses = []
    s = explore_parallel('lifted-blocks', factory, params, signature=signature, seed=seed, chunk=1,
                         query_timeout_ms=120000 if tier == 'quick' else 900000,
                         deadline_s=600 if tier == 'quick' else min(2400.0, float(os.environ.get('VERIF_DEADLINE_S') or 2400)), nproc=12, backend='cvc5')
    rep.add(s)
    if not only or 'controller' in only:
        NC = 3 if tier == 'quick' else 4
        cparams = [{'kind': 'controller', 'n': n, 'name': 'controller-%d' % n} for n in range(1, NC + 1)]
        s2 = explore_parallel('status-check-on-controller', factory, cparams, signature=signature, seed=seed, chunk=50,
                              validate=False)
        rep.add(s2)
        rep.bounds['status check on the controller'] = (
            '%d stages or fewer (2 components in even stages, 1 in odd ones); started or restarted at any stage, any current stage '
            'at or after it; each component of a reached stage finished+observed / finished / running / failed+observed, of a later stage '
            'running / finished+observed; weights equal, front-loaded or all on the last stage' % NC)
    finish_lemmas()
    return rep.finish()


def replay(v):
    if 'assignment' not in v:
        print('lemma counterexample: %s' % v)
        return 1
    st, msg, detail = replay_assignment(factory, v['param'], v['assignment'])
    print('replay: %s %s %s' % (st, msg, detail))
    return 1 if st == 'violation' else 0
