"""C03 -- replication expands a workflow without changing its dataflow.

E2 (CrossHair): textual rewriting functions with a symbolic producer name (harness/xh/c03_contracts.py).
E1 (symx): the whole in-memory loader WorkflowGraph.graphFromFlowIR(flowir, {}, primitive=False) ->
FlowIRConcrete.replicate / FlowIR.propagate_replicate / apply_replicate / compile_component_replica /
compile_component_aggregate / _createCompleteGraph over a symbolic DAG skeleton, compared with an
independent expander.
"""
import re

from experiment.model.frontends.flowir import FlowIR
from experiment.model.graph import WorkflowGraph
import experiment.model.errors as errors

from symx.runner import explore_parallel, Report, replay_assignment
from symx.xh import run_e2

NAME_FAMILIES = {'plain': ['src', 'mid', 'side', 'agg', 'tail'],
                 # one name is the tail of another
                 'suffix-pair': ['src', 'Sim', 'PreSim', 'agg', 'tail']}


def make_body(k, max_stage, families=('plain', 'suffix-pair')):
    def body(ctx):
        # --- symbolic skeleton
        # stage of each component: non-decreasing, symbolic switch positions
        sw1 = ctx.choice('first_component_of_stage1', list(range(1, k + 1)))
        # (stage 1 is never empty: the loader asserts that stage indices are contiguous, a gap is not a valid workflow)
        sw2 = ctx.choice('first_component_of_stage2', list(range(sw1 + 1, k + 1))) if max_stage >= 2 and sw1 < k else k
        stages = [0 if i < sw1 else (1 if i < sw2 else 2) for i in range(k)]
        n_rep, via_var = ctx.choice('replicas', [(1, False), (2, False), (3, False), (2, True), (12, True)])
        rel_spelling = ctx.flag('relative_spelling_in_same_stage')
        files = ctx.flag('references_with_file_paths')
        family = ctx.choice('names', list(families))
        NAMES = NAME_FAMILIES[family]
        if family == 'suffix-pair':
            ctx.assume((n_rep, via_var) == (2, False) and not files)
        comps = []
        preds = {}
        agg = {}
        for i in range(k):
            name = NAMES[i]
            c = {'stage': stages[i], 'name': name, 'command': {'executable': 'echo'}, 'references': [],
                 'workflowAttributes': {}, 'variables': {}}
            ps = []
            toks = []
            for j in range(i):
                if ctx.flag('edge:%s>%s' % (NAMES[j], name)):
                    ps.append(j)
                    same = stages[j] == stages[i]
                    rel = same and rel_spelling
                    with_file = files and (j % 2 == 0)
                    tail = '/out/f.txt:copy' if with_file else ':ref'
                    ref = ('%s%s' % (NAMES[j], tail)) if rel else ('stage%d.%s%s' % (stages[j], NAMES[j], tail))
                    c['references'].append(ref)
                    toks.append(ref if not with_file else ref.replace(':copy', ':ref'))
            # arguments only mention :ref references (copy references are staged, not substituted)
            c['command']['arguments'] = ' '.join(['-v'] + [t for t in toks if t.endswith(':ref') and '/out/' not in t])
            c['references'] = [r for r in c['references']]
            preds[i] = ps
            agg[i] = bool(ps) and ctx.flag('aggregate:%s' % name)
            if agg[i]:
                c['workflowAttributes']['aggregate'] = True
            comps.append(c)
        if via_var:
            comps[0]['workflowAttributes']['replicate'] = '%(n)s'
            comps[0]['variables']['n'] = n_rep
        else:
            comps[0]['workflowAttributes']['replicate'] = n_rep
        doc = {'components': comps}

        # --- independent expander over the abstract DAG (R[i]: is component i inside the replicated region?)
        R = {0: True}
        for i in range(1, k):
            R[i] = (not agg[i]) and any(R[j] for j in preds[i])
        rep = {i: (n_rep if R[i] else 1) for i in range(k)}
        if family == 'suffix-pair':
            # (until fix 0a3e1fc a replicated 'Sim' beside a non-replicated 'PreSim' was the open finding and was assumed away here)
            if k >= 3 and R[1] and R[2]:
                ctx.witness('two_replicated_producers_with_overlapping_names')
            if k >= 3 and R[1] != R[2]:
                ctx.witness('replicated_and_plain_producer_with_overlapping_names')
        want_nodes = {}
        for i in range(k):
            if R[i]:
                for r in range(n_rep):
                    want_nodes['stage%d.%s%d' % (stages[i], NAMES[i], r)] = (i, r)
            else:
                want_nodes['stage%d.%s' % (stages[i], NAMES[i])] = (i, None)

        try:
            g = WorkflowGraph.graphFromFlowIR(doc, {}, primitive=False)
            err = None
        except (errors.ExperimentInvalidConfigurationError, errors.FlowIRException) as e:
            g, err = None, e
        detail = {'stages': stages, 'preds': {NAMES[i]: [NAMES[j] for j in preds[i]] for i in preds},
                  'aggregate': [NAMES[i] for i in agg if agg[i]], 'replicas': n_rep, 'via_variable': via_var}
        # an aggregating component with no replicated input is a (documented) configuration error
        agg_without_rep = [i for i in range(1, k) if agg[i] and not any(R[j] for j in preds[i])]
        ctx.check(err is None or bool(agg_without_rep), 'a valid replicated workflow loads', (detail, repr(err)[:600]))
        if err is not None:
            return 'rejected'
        nodes = set(g.graph.nodes)

        ctx.check(nodes == set(want_nodes), 'expanded node set is exactly the expected copies',
                  (detail, sorted(nodes), sorted(want_nodes)))
        want_edges = set()
        for i in range(k):
            for j in preds[i]:
                for cn, (ci, cr) in want_nodes.items():
                    if ci != i:
                        continue
                    for pn, (pi, pr) in want_nodes.items():
                        if pi != j:
                            continue
                        if pr is None or cr is None or pr == cr:
                            want_edges.add((pn, cn))
        ctx.check(set(g.graph.edges) == want_edges, 'edges: copy i consumes copy i, single producers feed all, aggregators consume all',
                  (detail, sorted(set(g.graph.edges) ^ want_edges)))
        # per-node references, replica variable, arguments
        for cn, (ci, cr) in sorted(want_nodes.items()):
            conf = g.configurationForNode(cn, raw=False)
            got_refs = [FlowIR.ParseDataReferenceFull(r, stages[ci]) for r in conf.get('references', [])]
            want_refs = []
            for j in preds[ci]:
                orig = [r for r in comps[ci]['references'] if FlowIR.ParseDataReferenceFull(r, stages[ci])[1] == NAMES[j]][0]
                st, prod, fn, m = FlowIR.ParseDataReferenceFull(orig, stages[ci])
                if R[j] and R[ci]:
                    want_refs.append((st, '%s%d' % (prod, cr), fn, m))
                elif R[j]:
                    want_refs.extend([(st, '%s%d' % (prod, r), fn, m) for r in range(n_rep)])
                else:
                    pn = [n for n, (pi, pr) in want_nodes.items() if pi == j][0]
                    want_refs.append((st, pn.split('.', 1)[1], fn, m))
            ctx.check(got_refs == want_refs, 'references of every copy name the right producers in index order',
                      (detail, cn, got_refs, want_refs))
            for (st, prod, fn, m) in got_refs:
                ctx.check('stage%d.%s' % (st, prod) in nodes, 'every reference names a component that exists', (detail, cn, prod))
            if cr is not None:
                ctx.check(conf['variables'].get('replica') == cr, 'each copy knows its replica index', (detail, cn))
                ctx.witness('replicated_copy_checked')
            arg_refs = [FlowIR.ParseDataReferenceFull(t, stages[ci]) for t in conf['command'].get('arguments', '').split()
                        if ':' in t]
            want_args = [w for w in want_refs if w[3] == 'ref' and w[2] is None]
            ctx.check(arg_refs == want_args, 'argument references are rewritten like the references', (detail, cn, arg_refs, want_args))
            if agg[ci] and any(R[j] for j in preds[ci]) and n_rep > 1:
                ctx.witness('aggregator_checked')
        return (sorted(nodes), len(want_edges))
    return body


def factory(param):
    return make_body(param['k'], param['max_stage'], tuple(param.get('families', ('plain', 'suffix-pair'))))


def signature(param, assignment, message, detail):
    return 'structure|%s' % message


def xh_key(name, call):
    m = re.search(r"\((.*)\)$", call)
    try:
        arg = eval(m.group(1)) if m else ''
    except Exception:
        arg = ''
    rep = {'_c03_replica_A_replicated_other_symbolic': 'A', '_c03_aggregate_A_replicated_other_symbolic': 'A',
           '_c03_replica_symbolic_replicated_other_AB': 'AB', '_n03_aggregate_symbolic_replicated': 'AB'}.get(name)
    if rep and isinstance(arg, str):
        overlap = arg.endswith(rep) or rep.endswith(arg)
        special = any(c in arg for c in '+*?()[]{}|^$\\')
        # keys keep the historical _c03_ prefix (known_findings.json patterns) also for the native-only condition
        return '%s|suffix-overlap=%s|regex-special=%s' % (name.replace('_n03_', '_c03_'), overlap, special and not overlap)
    return '%s|%r' % (name, arg)


def main(tier, seed, only=None):
    rep = Report('C03', tier, seed)
    k = 4 if tier == 'quick' else 5
    timeout = 90 if tier == 'quick' else 600
    max_paths = 300000 if tier == 'quick' else 5000000
    rep.functions = ['FlowIR.compile_component_replica', 'FlowIR.compile_component_aggregate', 'FlowIR.replace_strings',
                     'WorkflowGraph.graphFromFlowIR', 'FlowIRConcrete.replicate', 'FlowIR.propagate_replicate', 'FlowIR.apply_replicate',
                     'WorkflowGraph._createCompleteGraph', 'WorkflowGraph.configurationForNode']
    rep.bounds = {'E2': 'one symbolic producer name <= 2 chars (file path <= 3) against A / AB, both roles, both spellings, replica 0..2 of 2..3',
                  'E1': '%d components over <= %d stages, every forward edge subset, aggregate flags, replicate 1..3 literal, 2 or 12 via variable, '
                        'relative/absolute spelling and file paths (per document)' % (k, 2 if tier == 'quick' else 3), 'max_paths': max_paths,
                  'per_condition_timeout_s': timeout}
    rep.outside = ['names longer than the bound in the textual layer', 'compile_component_aggregate over a symbolic name of the REPLICATED producer under CrossHair (one path > 90 s; concrete names only, via the structural layer and the native sweep)', 'more than one replication source', 'array-variable indexing with %(replica)s',
                   'DoWhile documents inside replicated regions']
    rep.assumptions = ['E1 layer uses two concrete name families: non-overlapping names, and one where a name is the tail of another (Sim / PreSim; 2 replicas, no file paths); other name interaction is the E2 layer',
                       'CrossHair counterexamples replayed natively before being reported']
    rep.explanation = ('E1: bounded symbolic execution (symx/z3) of the real in-memory loader over a symbolic DAG skeleton against an independent '
                       'expander; E2: CrossHair (z3) over the textual rewriting functions with symbolic characters')
    rep.required_witnesses = ['replicated_copy_checked', 'aggregator_checked', 'two_replicated_producers_with_overlapping_names',
                              'replicated_and_plain_producer_with_overlapping_names']
    if not only or 'xh' in only:
        import harness.xh.c03_contracts as C
        run_e2(rep, 'harness.xh.c03_contracts', timeout, sweep=C.sweep, key=xh_key)
    if not only or 'structure' in only:
        # the body realises every decision as a plain Python value before the code under test runs (no proxy crosses
        # into it), so the explored run *is* the native run: the second, identical execution is skipped here
        if tier == 'quick':
            sparams = [{'k': k, 'max_stage': 1, 'name': 'k%d' % k}]
        else:
            # one parameter per name family so that a truncated run (budget / wall-clock cap) still gives each family its share
            sparams = [{'k': k, 'max_stage': 2, 'families': ['plain'], 'name': 'k%d-plain' % k},
                       {'k': k, 'max_stage': 2, 'families': ['suffix-pair'], 'name': 'k%d-suffix-pair' % k}]
        s = explore_parallel('structure', factory, sparams, signature=signature, seed=seed, chunk=200, max_paths=max_paths, validate=False,
                             per_param_max=max_paths // len(sparams))
        rep.add(s)
    else:
        rep.required_witnesses = []
    return rep.finish()


def replay(v):
    if 'call' in v:
        import harness.xh.c03_contracts as C
        from symx.xh import replay_call
        bad, outcome = replay_call(C, v['call'])
        print('replay: %s -> %s (%s)' % (v['call'], 'VIOLATION' if bad else 'holds', outcome))
        return 1 if bad else 0
    st, msg, detail = replay_assignment(factory, v['param'], v['assignment'])
    print('replay: %s %s %s' % (st, msg, detail))
    return 1 if st == 'violation' else 0
