"""C16 -- memoization hashes identify equivalent work and nothing else (kernel only).

E1 (symx): pairs of in-memory workflows that differ in exactly one aspect (symbolic choice of aspect, backend
and reference usage) are loaded with the real graphFromFlowIR and the real
ComponentSpecification._compute_memoization_info / memoization_hash / memoization_hash_fuzzy are compared.
E2 (CrossHair): the canonicalisation ComponentSpecification._memoization_info_to_hash with symbolic strings.
"""
import copy
import os
import re
import shutil
import tempfile
import types

from experiment.model.graph import WorkflowGraph

from symx.runner import explore_parallel, Report, replay_assignment
from symx.xh import run_e2

ASPECTS = {
    # name: (relevant for strong hash, relevant for fuzzy hash)
    'executable': (True, True),
    'arguments': (True, True),
    'image': (True, True),
    'producer_arguments': (True, True),       # changes the producer's hash, which the consumer embeds
    'reference_method_in_arguments': (True, True),
    'component_name': (False, False),
    'component_name_ending_in_digits': (False, False),          # 'C' -> 'C2' (not a replica)
    'executable_of_C2_beside_a_component_C': (True, True),      # the digits are part of the name, 'C' is another component
    'stage_index': (False, False),
    'instance_location': (False, False),
    'unrelated_variable': (False, False),
    'resource_request': (False, False),
    'nothing': (False, False),
}
BACKENDS_WITH_IMAGE = ['kubernetes', 'lsf', 'docker']


def build(backend, uses_producer, v):
    rm = {'config': {'backend': backend}}
    if backend == 'kubernetes':
        rm['kubernetes'] = {'image': v['image']}
    elif backend == 'lsf':
        rm['lsf'] = {'dockerImage': v['image'], 'queue': 'normal'}
    elif backend == 'docker':
        rm['docker'] = {'image': v['image']}
    cstage = v['stage']
    args = v['arguments']
    refs = []
    if uses_producer:
        args = args + ' stage0.A:%s' % v['method']
        refs = ['stage0.A:%s' % v['method']]
    comps = [
        {'stage': 0, 'name': 'A', 'command': {'executable': 'echo', 'arguments': v['producer_arguments']}},
        {'stage': cstage, 'name': v['name'], 'command': {'executable': v['executable'], 'arguments': args},
         'references': refs, 'resourceManager': rm, 'variables': {'unrelated': v['variable']},
         'resourceRequest': {'numberProcesses': v['nproc']}},
    ]
    if v.get('sibling'):
        comps.append({'stage': cstage, 'name': 'C', 'command': {'executable': v['sibling'], 'arguments': 'sibling'}})
    if cstage == 2:
        comps.insert(1, {'stage': 1, 'name': 'filler', 'command': {'executable': 'echo'}})
    return {'components': comps}


def hashes(doc, cname, cstage, where):
    g = WorkflowGraph.graphFromFlowIR(doc, {}, primitive=False)
    for n, d in g.graph.nodes(data=True):
        d['componentInstance'] = types.SimpleNamespace(directory=where)
    spec = g.graph.nodes['stage%d.%s' % (cstage, cname)]['componentSpecification']
    return spec.memoization_hash, spec.memoization_hash_fuzzy


BASE = {'image': 'registry/img:1', 'stage': 1, 'arguments': '-n 4', 'method': 'ref', 'producer_arguments': 'x',
        'name': 'C', 'executable': 'bin/run', 'variable': 'u', 'nproc': 1, 'where': '/tmp'}
CHANGE = {'executable': ('executable', 'bin/other'), 'arguments': ('arguments', '-n 5'), 'image': ('image', 'registry/img:2'),
          'producer_arguments': ('producer_arguments', 'y'), 'reference_method_in_arguments': ('method', 'copy'),
          'component_name': ('name', 'Renamed'), 'component_name_ending_in_digits': ('name', 'C2'),
          'executable_of_C2_beside_a_component_C': ('executable', 'bin/other'), 'stage_index': ('stage', 2), 'instance_location': ('where', '/usr'),
          'unrelated_variable': ('variable', 'w'), 'resource_request': ('nproc', 2), 'nothing': ('nproc', 1)}


def body(ctx):
    backend = ctx.choice('backend', ['local', 'simulator', 'kubernetes', 'lsf', 'docker'])
    uses_producer = ctx.flag('consumes_from_producer')
    aspect = ctx.choice('aspect', sorted(ASPECTS))
    if aspect == 'image':
        ctx.assume(backend in BACKENDS_WITH_IMAGE)
    if aspect in ('producer_arguments', 'reference_method_in_arguments'):
        ctx.assume(uses_producer)
    v1 = dict(BASE)
    v2 = dict(BASE)
    k, val = CHANGE[aspect]
    v2[k] = val
    if aspect == 'executable_of_C2_beside_a_component_C':
        v1.update(name='C2', sibling='bin/sibling')
        v2.update(name='C2', sibling='bin/sibling')
    h1 = hashes(build(backend, uses_producer, v1), v1['name'], v1['stage'], v1['where'])
    h2 = hashes(build(backend, uses_producer, v2), v2['name'], v2['stage'], v2['where'])
    detail = {'backend': backend, 'aspect': aspect, 'consumes_from_producer': uses_producer, 'hashes': (h1, h2)}
    ctx.check(all(h1) and all(h2), 'a component whose inputs exist has a strong and a fuzzy hash', detail)
    rel_strong, rel_fuzzy = ASPECTS[aspect]
    if rel_strong:
        ctx.witness('relevant_aspect_checked')
        ctx.check(h1[0] != h2[0], 'a hash-relevant difference changes the strong hash', detail)
    else:
        ctx.witness('irrelevant_aspect_checked')
        ctx.check(h1[0] == h2[0], 'a hash-irrelevant difference leaves the strong hash unchanged', detail)
    if rel_fuzzy:
        ctx.check(h1[1] != h2[1], 'a hash-relevant difference changes the fuzzy hash', detail)
    else:
        ctx.check(h1[1] == h2[1], 'a hash-irrelevant difference leaves the fuzzy hash unchanged', detail)
    return (backend, aspect, uses_producer)


class _Storage(object):
    def __init__(self, root):
        self.root = root
        self.instancePath = root

    def resolvePath(self, p):
        return os.path.join(self.root, p)


def body_files(ctx):
    """Direct file references: content sensitivity, location insensitivity, no hash while the input is missing."""
    present1 = ctx.flag('file_present_in_first')
    present2 = ctx.flag('file_present_in_second')
    same_content = ctx.flag('same_content')
    method = ctx.choice('method', ['copy', 'ref', 'link'])
    uses_in_args = ctx.flag('reference_used_in_arguments')
    ctx.assume(method == 'ref' or not uses_in_args or True)
    args = 'run' + (' data/in.txt:%s' % method if (uses_in_args and method == 'ref') else '')
    doc = {'components': [{'stage': 0, 'name': 'C', 'command': {'executable': 'bin/run', 'arguments': args},
                           'references': ['data/in.txt:%s' % method]}]}
    roots = [tempfile.mkdtemp(prefix='verif-c16-a-'), tempfile.mkdtemp(prefix='verif-c16-b-')]
    try:
        hs = []
        for root, present, content in ((roots[0], present1, 'alpha'), (roots[1], present2, 'alpha' if same_content else 'beta')):
            os.makedirs(os.path.join(root, 'data'))
            if present:
                with open(os.path.join(root, 'data', 'in.txt'), 'w') as f:
                    f.write(content)
            g = WorkflowGraph.graphFromFlowIR(copy.deepcopy(doc), {}, primitive=False)
            g.rootStorage = _Storage(root)
            for n, d in g.graph.nodes(data=True):
                d['componentInstance'] = types.SimpleNamespace(directory=root)
            spec = g.graph.nodes['stage0.C']['componentSpecification']
            hs.append((spec.memoization_hash, spec.memoization_hash_fuzzy))
    finally:
        for r in roots:
            shutil.rmtree(r, ignore_errors=True)
    detail = {'present': (present1, present2), 'same_content': same_content, 'method': method, 'hashes': hs}
    for present, h in ((present1, hs[0]), (present2, hs[1])):
        if not present:
            ctx.witness('missing_input_checked')
            ctx.check(h[0] is None and h[1] is None, 'no hash is produced while a referenced input is missing', detail)
        else:
            ctx.check(h[0] is not None and h[1] is not None, 'a component whose inputs exist has a hash', detail)
    if present1 and present2:
        ctx.witness('content_pair_checked')
        if same_content:
            ctx.check(hs[0] == hs[1], 'equal file contents in different instance locations give equal hashes', detail)
        else:
            ctx.check(hs[0][0] != hs[1][0], 'different file contents give different strong hashes', detail)
            ctx.check(hs[0][1] != hs[1][1], 'different contents of a file not produced by a component change the fuzzy hash', detail)
    return (present1, present2, same_content, method)


def body_chain(ctx):
    """A chain  data/in.txt -> P -> P/out.txt -> C : the consumer's fuzzy hash follows the producer's fuzzy hash, and no
    fuzzy hash exists while an input anywhere up the chain is missing."""
    ins = [ctx.choice('producer_input_in_first', ['missing', 'alpha', 'beta']),
           ctx.choice('producer_input_in_second', ['missing', 'alpha', 'beta'])]
    out_present = ctx.flag('producer_output_present')
    method = ctx.choice('method', ['ref', 'copy', 'output'])
    in_args = ctx.flag('reference_used_in_arguments')
    if method == 'copy':
        ctx.assume(not in_args)
    ref = 'stage0.P/out.txt:%s' % method
    doc = {'components': [
        {'stage': 0, 'name': 'P', 'command': {'executable': 'bin/gen', 'arguments': 'data/in.txt:ref'}, 'references': ['data/in.txt:ref']},
        {'stage': 1, 'name': 'C', 'command': {'executable': 'bin/use', 'arguments': 'run' + ((' ' + ref) if in_args else '')},
         'references': [ref]}]}
    roots = [tempfile.mkdtemp(prefix='verif-c16-c-'), tempfile.mkdtemp(prefix='verif-c16-d-')]
    hs = []
    try:
        for root, content in zip(roots, ins):
            os.makedirs(os.path.join(root, 'data'))
            os.makedirs(os.path.join(root, 'stages', 'stage0', 'P'))
            os.makedirs(os.path.join(root, 'stages', 'stage1', 'C'))
            if content != 'missing':
                with open(os.path.join(root, 'data', 'in.txt'), 'w') as f:
                    f.write(content)
            if out_present:
                with open(os.path.join(root, 'stages', 'stage0', 'P', 'out.txt'), 'w') as f:
                    f.write('produced')
            g = WorkflowGraph.graphFromFlowIR(copy.deepcopy(doc), {}, primitive=False)
            g.rootStorage = _Storage(root)
            for n, d in g.graph.nodes(data=True):
                st, name = n.split('.', 1)
                d['componentInstance'] = types.SimpleNamespace(directory=os.path.join(root, 'stages', st, name))
            sp = g.graph.nodes['stage0.P']['componentSpecification']
            sc = g.graph.nodes['stage1.C']['componentSpecification']
            hs.append({'P': (sp.memoization_hash, sp.memoization_hash_fuzzy), 'C': (sc.memoization_hash, sc.memoization_hash_fuzzy)})
    finally:
        for r in roots:
            shutil.rmtree(r, ignore_errors=True)
    detail = {'producer_inputs': ins, 'producer_output_present': out_present, 'method': method, 'in_arguments': in_args, 'hashes': hs}
    for content, h in zip(ins, hs):
        if content == 'missing':
            ctx.witness('chain_input_missing_checked')
            ctx.check(h['P'] == (None, None), 'no hash is produced while a referenced input is missing', detail)
            ctx.check(h['C'][1] is None, 'no fuzzy hash is produced while an input of a producer up the chain is missing', detail)
        else:
            ctx.check(all(h['P']), 'a component whose inputs exist has a hash', detail)
            if out_present:
                ctx.check(all(h['C']), 'a consumer whose producer chain is complete has a hash', detail)
        if not out_present:
            ctx.check(h['C'] == (None, None), 'no hash is produced while a referenced input is missing', detail)
    if out_present and 'missing' not in ins:
        ctx.witness('chain_pair_checked')
        if ins[0] == ins[1]:
            ctx.check(hs[0] == hs[1], 'equal chains in different instance locations give equal hashes', detail)
        else:
            ctx.check(hs[0]['P'][1] != hs[1]['P'][1] and hs[0]['C'][1] != hs[1]['C'][1],
                      'the fuzzy hash of a consumer changes when the fuzzy hash of its producer changes', detail)
    return (tuple(ins), out_present, method, in_args)


def body_replicas(ctx):
    """Replicas are hashed with the executable of their blueprint, whatever digits the blueprint's own name ends in."""
    blueprint = ctx.choice('blueprint_name', ['W', 'W1', 'W07'])
    other = ctx.choice('other_blueprint_name', ['W', 'V3'])
    n = ctx.choice('replicas', [2, 11])
    exe2 = ctx.choice('other_executable', ['bin/work', 'bin/else'])

    def doc(name, exe):
        return {'variables': {'default': {'global': {'n': n}}}, 'components': [
            {'stage': 0, 'name': 'src', 'command': {'executable': 'echo', 'arguments': 'x'}, 'workflowAttributes': {'replicate': '%(n)s'}},
            {'stage': 0, 'name': name, 'command': {'executable': exe, 'arguments': '-i src:ref'}, 'references': ['src:ref']}]}
    last = n - 1
    h1 = [hashes(doc(blueprint, 'bin/work'), '%s%d' % (blueprint, r), 0, '/tmp') for r in (0, last)]
    h2 = [hashes(doc(other, exe2), '%s%d' % (other, r), 0, '/tmp') for r in (0, last)]
    detail = {'blueprint': blueprint, 'other': other, 'replicas': n, 'other_executable': exe2, 'hashes': (h1, h2)}
    ctx.witness('replica_checked')
    ctx.check(all(all(h) for h in h1 + h2), 'a replica whose inputs exist has a strong and a fuzzy hash', detail)
    if exe2 == 'bin/work':
        ctx.check(h1 == h2, 'the hash of a replica does not depend on the name of its blueprint', detail)
    else:
        ctx.check(h1[0][0] != h2[0][0] and h1[1][0] != h2[1][0], 'replicas of blueprints with different executables hash differently', detail)
    return (blueprint, other, n, exe2)


def factory(param):
    if param.get('name') == 'replicas':
        return body_replicas
    if param.get('name') == 'files':
        return body_files
    if param.get('name') == 'chain':
        return body_chain
    return body


def signature(param, assignment, message, detail):
    return '%s|%s|aspect=%s|backend=%s' % (param.get('name'), message, (detail or {}).get('aspect'), (detail or {}).get('backend'))


def xh_key(name, call):
    return name


def main(tier, seed, only=None):
    rep = Report('C16', tier, seed)
    timeout = 40 if tier == 'quick' else 600
    rep.functions = ['graph.ComponentSpecification._compute_memoization_info', '_memoization_info_to_hash', 'memoization_hash',
                     'memoization_hash_fuzzy', 'WorkflowGraph.graphFromFlowIR']
    rep.bounds = {'E1': 'pairs differing in exactly one of %d aspects x backend in {local, simulator, kubernetes, lsf, docker} x '
                        'consumer with/without a producer reference' % len(ASPECTS),
                  'files': 'one direct file reference (copy/ref/link): present or missing in each of two instance locations, equal or different contents',
                  'chain': 'data file -> producer -> produced file -> consumer (ref/copy/output, in arguments or not): the data file missing / alpha / beta in each of two locations, the produced file present or missing',
                  'replicas': 'a replicated consumer (2 or 11 replicas) whose blueprint is called W, W1 or W07, against W / V3 with the same or another executable',
                  'E2': 'two symbolic strings of <= 2-3 characters in arguments / executable / files / image'}
    rep.outside = ['symbolic file contents (md5_of_file is C code; two concrete contents are used)',
                   'custom JavaScript embedding functions', 'CDB lookups (Controller.can_memoize)']
    rep.assumptions = ['hashlib.md5 replaced by a recorder in the E2 layer (md5 assumed injective on the compared inputs)',
                       'nodes get a stub componentInstance whose directory exists (/tmp, /usr)']
    rep.explanation = ('E1: bounded symbolic execution (symx/z3) over the choice of the differing aspect; E2: CrossHair (z3) on the '
                       'canonicalisation with symbolic characters; counterexamples replayed natively')
    rep.required_witnesses = ['relevant_aspect_checked', 'irrelevant_aspect_checked', 'missing_input_checked', 'content_pair_checked',
                              'chain_input_missing_checked', 'chain_pair_checked', 'replica_checked']
    if not only or 'xh' in only:
        import harness.xh.c16_contracts as C
        run_e2(rep, 'harness.xh.c16_contracts', timeout, sweep=C.sweep, key=xh_key)
    if not only or 'pairs' in only:
        s = explore_parallel('aspect-pairs', factory, [{'name': 'pairs'}, {'name': 'files'}, {'name': 'chain'}, {'name': 'replicas'}], signature=signature, seed=seed, chunk=8,
                             validate=False)
        rep.add(s)
    else:
        rep.required_witnesses = []
    return rep.finish()


def replay(v):
    if 'call' in v:
        import harness.xh.c16_contracts as C
        from symx.xh import replay_call
        bad, outcome = replay_call(C, v['call'])
        print('replay: %s -> %s (%s)' % (v['call'], 'VIOLATION' if bad else 'holds', outcome))
        return 1 if bad else 0
    st, msg, detail = replay_assignment(factory, v['param'], v['assignment'])
    print('replay: %s %s %s' % (st, msg, detail))
    return 1 if st == 'violation' else 0
