"""C10 -- command-line reference substitution is exact (engine E2: CrossHair)."""
import re

from symx.runner import Report
from symx.xh import run_e2

REP = {'_c10_relative_relative_A': 'A', '_c10_relative_relative_AB': 'AB', '_c10_absolute_relative_A1': 'A1',
       '_c10_output_contents_A': 'A', '_c10_unused_and_undeclared_reported': 'A'}


def key(name, call):
    m = re.search(r"\((.*)\)$", call)
    try:
        arg = eval(m.group(1)) if m else ''
    except Exception:
        arg = ''
    if name in ('_c10_absolute_absolute', '_c10_output_contents_verbatim'):
        return '%s|%r' % (name, arg)          # never part of the open finding (which needs a relative spelling)
    if name == '_c10_same_name_two_stages':
        return '%s|suffix-overlap=True' % name
    rep = REP.get(name)
    if rep and isinstance(arg, str):
        overlap = arg.endswith(rep) or rep.endswith(arg)
        return '%s|suffix-overlap=%s' % (name, overlap)
    return '%s|%r' % (name, arg)


def main(tier, seed, only=None):
    rep = Report('C10', tier, seed)
    timeout = 100 if tier == 'quick' else 900
    rep.functions = ['graph.ComponentSpecification.resolveArguments', 'graph.DataReference.__init__/absoluteReference/relativeReference',
                     'graph.ComponentIdentifier']
    rep.bounds = {'symbolic producer name': '<= 2 printable ASCII characters against the concrete representatives A, AB, A1',
                  'argument strings': 'two reference tokens in either spelling, with/without option prefixes; literal text <= 3 chars',
                  'declaration order': 'both orders executed on every path', 'per_condition_timeout_s': timeout}
    rep.outside = ['names longer than the bound', 'more than two declared references', '<file>[i] expansion in fill_in (is_raw=True)',
                   'DataReference.resolve itself (stub returning a distinct token per reference)']
    rep.assumptions = ['DataReference.resolve returns a fixed distinct token per reference', 'harness subclass overrides only data-providing properties']
    rep.explanation = ('CrossHair (z3) symbolic execution of the real resolveArguments with symbolic characters in one producer name; '
                       'counterexamples replayed natively; native sweep over a 6-letter alphabet as a net')
    import harness.xh.c10_contracts as C
    run_e2(rep, 'harness.xh.c10_contracts', timeout, names=only, sweep=C.sweep, key=key)
    return rep.finish()


def replay(v):
    import harness.xh.c10_contracts as C
    from symx.xh import replay_call
    bad, outcome = replay_call(C, v['call'])
    print('replay: %s -> %s (%s)' % (v['call'], 'VIOLATION' if bad else 'holds', outcome))
    return 1 if bad else 0
