"""C08 -- configuration queries always reflect the latest updates (engine E1, inductive step).

Invariant J: every cached component configuration equals the one a fresh FlowIRConcrete built from
raw() computes.  One arbitrary interface call from an arbitrary J-state (cache filled for a symbolic
subset of (component, platform) pairs by real queries) must re-establish J; histories of any length
follow.  Real code: FlowIRConcrete.get_component_configuration / get_component / update_component /
delete_component / add_component / set_component_option / remove_component_option /
set_component_variable / delete_component_variable / set_*_variable / get_platform_*_variables /
FlowIRCache.*, FlowIRExperimentConfiguration.setOptionForNode / removeOptionForNode.
"""
import copy

import experiment.model.conf as conf
import experiment.model.errors as errors
from experiment.model.frontends.flowir import FlowIRConcrete, FlowIR

from symx.runner import explore_parallel, Report, replay_assignment

# names chosen adversarially: the cache is invalidated with re.match('component:.*:stage%s:%s')
COMPS = [(0, 'a+b'), (0, 'c'), (0, 'c1'), (1, 'c')]
PLATFORMS = ['default', 'p']


def base_doc():
    comps = []
    for st, name in COMPS:
        comps.append({'stage': st, 'name': name,
                      'command': {'executable': 'echo', 'arguments': '%(v)s %(g)s %(s)s %(k)s'},
                      'variables': {'v': 'own-%s%d' % (name, st)},
                      'workflowAttributes': {'maxRestarts': 2}})
    comps[1]['override'] = {'p': {'command': {'arguments': 'on-p %(v)s %(g)s %(s)s'}}}
    return {
        'platforms': ['default', 'p'],
        'components': comps,
        'variables': {
            'default': {'global': {'g': 'dg', 's': 'dgs', 'k': 1}, 'stages': {0: {'s': 'ds0'}, 1: {'s': 'ds1'}}},
            'p': {'global': {'g': 'pg', 'k': 1}, 'stages': {0: {'s': 'ps0'}, 1: {}}},
        },
    }


def query(concrete, cid, platform):
    return concrete.get_component_configuration(cid, raw=False, include_default=True, platform=platform)


def mutate_deep(x):
    """Scribble over every nested container of a returned configuration."""
    if isinstance(x, dict):
        for k in list(x):
            mutate_deep(x[k])
            x[k] = 'SCRIBBLE'
        x['scribble-key'] = 1
    elif isinstance(x, list):
        for v in x:
            mutate_deep(v)
        x.append('SCRIBBLE')


MUTATORS = ['set_component_variable', 'delete_component_variable', 'set_component_option',
            'remove_component_option', 'set_global_variable', 'set_stage_variable',
            'set_platform_global_variable', 'set_platform_stage_variable', 'update_component',
            'delete_component', 'add_component', 'get_component_ref', 'get_platform_global_variables_ref',
            'get_platform_stage_variables_ref', 'get_default_global_variables_ref', 'setOptionForNode',
            'removeOptionForNode', 'set_environment_noop']


def apply_mutator(ctx, concrete, cfg, rnd):
    m = ctx.choice('mutator%d' % rnd, MUTATORS)
    tok = 'new%d' % rnd
    live = [c for c in COMPS + [(0, 'd')] if c in concrete._component_dictionary]

    def target():
        return live[ctx.choice('target%d' % rnd, list(range(len(live))))] if len(live) > 1 else live[0]
    try:
        if m == 'set_component_variable':
            concrete.set_component_variable(target(), ctx.choice('var%d' % rnd, ['v', 'g', 'fresh']), tok)
        elif m == 'delete_component_variable':
            concrete.delete_component_variable(target(), ctx.choice('var%d' % rnd, ['v', 'g']))
        elif m == 'set_component_option':
            concrete.set_component_option(target(), ctx.choice('route%d' % rnd, ['#command.arguments', '#workflowAttributes.maxRestarts', 'v']),
                                          ctx.choice('val%d' % rnd, [tok + ' %(g)s', 1]))
        elif m == 'remove_component_option':
            concrete.remove_component_option(target(), ctx.choice('route%d' % rnd, ['#command.arguments', '#workflowAttributes.maxRestarts', 'v']))
        elif m == 'set_global_variable':
            var = ctx.choice('var%d' % rnd, ['g', 'fresh', 'k'])
            # for the numeric variable: values that compare equal to the old one (1) but render differently
            concrete.set_global_variable(var, ctx.choice('val%d' % rnd, [True, 1.0, 2]) if var == 'k' else tok)
        elif m == 'set_stage_variable':
            concrete.set_stage_variable(ctx.choice('stage%d' % rnd, [0, 1]), 's', tok)
        elif m == 'set_platform_global_variable':
            var = ctx.choice('var%d' % rnd, ['g', 'k'])
            concrete.set_platform_global_variable(var, ctx.choice('val%d' % rnd, [True, 1.0, 2]) if var == 'k' else tok,
                                                  ctx.choice('plat%d' % rnd, [None, 'default', 'p']))
        elif m == 'set_platform_stage_variable':
            concrete.set_platform_stage_variable(ctx.choice('stage%d' % rnd, [0, 1]), 's', tok,
                                                 ctx.choice('plat%d' % rnd, [None, 'default', 'p']))
        elif m == 'update_component':
            t = target()
            concrete.update_component(t, {'stage': t[0], 'name': t[1], 'command': {'executable': 'ls', 'arguments': tok},
                                          'variables': {}, 'references': []})
        elif m == 'delete_component':
            concrete.delete_component(target())
        elif m == 'add_component':
            concrete.add_component({'stage': 0, 'name': 'd', 'command': {'executable': 'ls', 'arguments': '%(g)s'}})
        elif m == 'get_component_ref':
            ref = concrete.get_component(target(), return_copy=False)
            ref.setdefault('command', {})['arguments'] = tok + ' via-ref'
        elif m == 'get_platform_global_variables_ref':
            ref = concrete.get_platform_global_variables(ctx.choice('plat%d' % rnd, [None, 'default', 'p']), return_copy=False)
            ref['g'] = tok
        elif m == 'get_default_global_variables_ref':
            ref = concrete.get_default_global_variables(return_copy=False)
            ref['g'] = tok
        elif m == 'get_platform_stage_variables_ref':
            ref = concrete.get_platform_stage_variables(ctx.choice('stage%d' % rnd, [0, 1]),
                                                        ctx.choice('plat%d' % rnd, [None, 'default', 'p']), return_copy=False)
            ref['s'] = tok
        elif m == 'setOptionForNode':
            t = target()
            cfg.setOptionForNode('stage%d.%s' % t, ctx.choice('route%d' % rnd, ['#command.arguments', 'v']), tok)
        elif m == 'removeOptionForNode':
            t = target()
            cfg.removeOptionForNode('stage%d.%s' % t, ctx.choice('route%d' % rnd, ['#command.arguments', 'v']))
        elif m == 'set_environment_noop':
            pass
        return m, None
    except (errors.FlowIRException, KeyError) as e:
        return m, type(e).__name__


def make_body(rounds, coarse):
    def body(ctx):
        active = ctx.choice('active_platform', PLATFORMS)
        concrete = FlowIRConcrete(base_doc(), active, {})
        cfg = object.__new__(conf.FlowIRExperimentConfiguration)
        cfg._concrete = concrete
        trace = []
        for rnd in range(rounds):
            # arbitrary J-state: the cache holds a symbolic subset of fully resolved configurations
            # (after a mutator of an earlier round left a wrongly typed option a query may raise: nothing is cached then)
            def prefill(c, cid, pl):
                try:
                    return query(c, cid, pl)
                except Exception:
                    return None
            if coarse:
                pls = ctx.choice('cached_platforms%d' % rnd, [['default', 'p'], ['default'], ['p']])
                for cid in list(concrete._component_dictionary):
                    if ctx.flag('cached%d:%s%d' % (rnd, cid[1], cid[0])):
                        for pl in pls:
                            prefill(concrete, cid, pl)
            else:
                for cid in list(concrete._component_dictionary):
                    for pl in PLATFORMS:
                        if ctx.flag('cached%d:%s%d:%s' % (rnd, cid[1], cid[0], pl)):
                            prefill(concrete, cid, pl)
            m, err = apply_mutator(ctx, concrete, cfg, rnd)
            trace.append((m, err))
            fresh = FlowIRConcrete(concrete.raw(), active, {})
            for cid in list(fresh._component_dictionary):
                for pl in PLATFORMS:
                    try:
                        want = query(fresh, cid, pl)
                        werr = None
                    except Exception as e:
                        want, werr = None, type(e).__name__
                    try:
                        got = query(concrete, cid, pl)
                        gerr = None
                    except Exception as e:
                        got, gerr = None, type(e).__name__
                    where = 'after %s on %s' % (m, 'stage%d.%s' % cid)
                    ctx.check(gerr == werr and got == want,
                              'query equals the configuration computed from scratch',
                              {'mutator': m, 'component': 'stage%d.%s' % cid, 'platform': pl, 'got': got, 'want': want,
                               'errors': (gerr, werr)})
                    if got is not None:
                        ctx.witness('query_compared')
                        mutate_deep(got)
                        again = query(concrete, cid, pl)
                        ctx.check(again == want, 'a returned configuration is a private copy',
                                  {'mutator': m, 'component': 'stage%d.%s' % cid, 'platform': pl})
            if err is None and m not in ('set_environment_noop',):
                ctx.witness('mutator_applied')
        return trace
    return body


def factory(param):
    return make_body(param['rounds'], param['coarse'])


def signature(param, assignment, message, detail):
    d = detail or {}
    comp = d.get('component', '')
    special = any(ch in comp for ch in '+*?()[]{}|^$\\')
    return '%s|%s|regex-special-name=%s' % (message, d.get('mutator'), special)


def main(tier, seed, only=None):
    rep = Report('C08', tier, seed)
    rep.functions = ['FlowIRConcrete.get_component_configuration', 'get_component', 'update_component', 'delete_component',
                     'add_component', 'set_component_option', 'remove_component_option', 'set_component_variable',
                     'delete_component_variable', 'set_global_variable', 'set_stage_variable',
                     'set_platform_global_variable', 'set_platform_stage_variable', 'get_platform_global_variables',
                     'get_platform_stage_variables', 'get_default_global_variables', 'invalidate_cache_for_component',
                     'FlowIRCache.get/set/clear/invalidate_reg_expression/invalidate_selector',
                     'conf.FlowIRExperimentConfiguration.setOptionForNode/removeOptionForNode']
    rounds = 1 if tier == 'quick' else 2
    max_paths = 400000 if tier == 'quick' else 6000000
    rep.bounds = {'base document': '2 platforms, 2 stages, components %s' % ['stage%d.%s' % c for c in COMPS],
                  'pre-state': ('cache filled for any subset of components on {both platforms, default only, p only}' if tier == 'quick' else 'cache filled for any subset of the 8 (component, platform) pairs') + ' by real queries',
                  'mutators': MUTATORS, 'rounds (query-subset + mutator)': rounds, 'max_paths': max_paths}
    rep.outside = ['mutation through a reference obtained earlier with return_copy=False and kept across a query',
                   'concurrent access to the cache', 'documents (DoWhile) and replication']
    rep.assumptions = ['invariant J (cache entry == from-scratch value) holds after construction (empty cache) and is '
                       're-established by one arbitrary interface call from an arbitrary J-state',
                       'from-scratch reference = FlowIRConcrete(raw(), platform, {}) of the same working tree']
    rep.explanation = ('bounded symbolic execution (symx/z3): cached subset, mutator, target and value are solver variables; '
                       'every feasible path runs the real configuration code and compares every query with a from-scratch resolution')
    rep.required_witnesses = ['query_compared', 'mutator_applied']
    s = explore_parallel('cache-step', factory, [{'rounds': rounds, 'coarse': tier == 'quick', 'name': 'rounds-%d' % rounds}], signature=signature,
                         seed=seed, chunk=300, max_paths=max_paths)
    rep.add(s)
    return rep.finish()


def replay(v):
    st, msg, detail = replay_assignment(factory, v['param'], v['assignment'])
    print('replay: %s %s %s' % (st, msg, detail))
    return 1 if st == 'violation' else 0
