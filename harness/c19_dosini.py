"""C19 -- the legacy configuration format round-trips an instance (component option tables only).

Real code per path: Dosini._flowir_component_to_dict (+ _comp_command_to_dict, _comp_executors_to_str,
_comp_resource_manager_to_str, _comp_resource_request_to_dict, _comp_workflow_attributes_to_dict,
_translate_dict_to_dict) -> Dosini.parse_component -> FlowIR.convert_component_types, compared through
FlowIRConcrete.get_component_configuration on both sides.  No configparser / disk.
"""
import copy
import shutil
import tempfile

import experiment.model.errors as errors
from experiment.model.frontends.dosini import Dosini
from experiment.model.frontends.flowir import FlowIR, FlowIRConcrete

from symx.runner import explore_parallel, Report, replay_assignment

REASONS = ['ResourceExhausted', 'KnownIssue', 'SystemIssue', 'UnknownIssue', 'SubmissionFailed', 'Success']

# option -> (section path, candidate values)
OPTIONS = {
    'command.arguments': ['-n 1 --flag', ''],
    'command.environment': ['myenv'],
    'command.interpreter': ['bash'],
    'command.resolvePath': [True, False],
    'command.expandArguments': ['none', 'double-quote'],
    'workflowAttributes.shutdownOn': [['KnownIssue'], ['KnownIssue', 'SystemIssue']],
    'workflowAttributes.restartHookOn': [['ResourceExhausted'], ['KnownIssue', 'UnknownIssue'], []],
    'workflowAttributes.restartHookFile': ['custom.py'],
    'workflowAttributes.repeatRetries': [0, 2],
    'workflowAttributes.maxRestarts': [0, 5, -1],
    'workflowAttributes.replicate': [1, 3],
    'workflowAttributes.aggregate': [True, False],
    'workflowAttributes.repeatInterval': [0.5, 8.0, 30],
    'workflowAttributes.isMigratable': [True],
    'workflowAttributes.optimizer.disable': [True, False],
    'workflowAttributes.optimizer.exploitChance': [0.5],
    'workflowAttributes.optimizer.exploitTarget': [0.25],
    'workflowAttributes.memoization.disable.strong': [True],
    'workflowAttributes.memoization.disable.fuzzy': [True],
    'workflowAttributes.memoization.embeddingFunction': ['return 1;'],
    'resourceRequest.numberProcesses': [1, 16],
    'resourceRequest.numberThreads': [2],
    'resourceRequest.ranksPerNode': [4],
    'resourceRequest.threadsPerCore': [2],
    'resourceRequest.memory': ['2Gi', 1048576],
    'resourceManager.config.walltime': [120.0, 60],
    'resourceManager.lsf.queue': ['normal'],
    'resourceManager.lsf.reservation': ['res1'],
    'resourceManager.lsf.resourceString': ['select[mem>1]'],
    'resourceManager.lsf.statusRequestInterval': [20, 5.5],
    'resourceManager.lsf.dockerImage': ['img:1'],
    'resourceManager.lsf.dockerProfileApp': ['app'],
    'resourceManager.lsf.dockerOptions': ['--rm'],
    'resourceManager.kubernetes.image': ['reg/img:2'],
    'resourceManager.kubernetes.image-pull-secret': ['secret'],
    'resourceManager.kubernetes.namespace': ['ns'],
    'resourceManager.kubernetes.host': ['https://k8s'],
    'resourceManager.kubernetes.api-key-var': ['APIKEY'],
    'resourceManager.kubernetes.cpuUnitsPerCore': [0.5, 1],
    'resourceManager.kubernetes.gracePeriod': [30],
    'executors.pre.lsf-dm-in': ['in-payload'],
    'executors.post.lsf-dm-out': ['out-payload'],
    'variables.custom': ['value with spaces', '%(other)s'],
    'references': [['stage0.producer:ref'], ['stage0.producer/file.txt:copy', 'data/input.csv:ref']],
}
BACKEND_OF = {'lsf': 'lsf', 'kubernetes': 'kubernetes'}


def set_option(comp, path, value):
    if path == 'references':
        comp['references'] = list(value)
        return
    parts = path.split('.')
    if parts[0] == 'executors':
        comp.setdefault('executors', {}).setdefault(parts[1], []).append({'name': parts[2], 'payload': value})
        return
    cur = comp
    for p in parts[:-1]:
        cur = cur.setdefault(p, {})
    cur[parts[-1]] = value


def applicable(path, backend):
    parts = path.split('.')
    if parts[0] == 'resourceManager' and parts[1] in BACKEND_OF:
        return BACKEND_OF[parts[1]] == backend
    if parts[0] == 'executors':
        return backend == 'lsf'
    return True


def resolved(comp):
    doc = {'components': [copy.deepcopy(comp), {'stage': 0, 'name': 'producer', 'command': {'executable': 'ls'}}],
           'variables': {'default': {'global': {'other': 'from-global'}}},
           'environments': {'default': {'myenv': {'A': 'b'}}}}
    c = FlowIRConcrete(doc, 'default', {})
    return c.get_component_configuration((comp['stage'], comp['name']), raw=False, include_default=True, is_primitive=True)


def make_body(pairs):
    names = sorted(OPTIONS)

    def body(ctx):
        backend = ctx.choice('backend', ['local', 'simulator', 'lsf', 'kubernetes'])
        comp = {'stage': 1, 'name': 'comp', 'command': {'executable': 'bin/run'},
                'resourceManager': {'config': {'backend': backend}}, 'variables': {}}
        if backend == 'kubernetes':
            comp['resourceManager']['kubernetes'] = {'image': 'reg/base:1'}
        if backend == 'docker':
            comp['resourceManager']['docker'] = {'image': 'reg/base:1'}
        first = ctx.choice('option', names)
        ctx.assume(applicable(first, backend))
        chosen = [first]
        if pairs:
            second = ctx.choice('second_option', ['<none>'] + names)
            if second != '<none>':
                ctx.assume(second > first and applicable(second, backend) and second.split('.')[0] == first.split('.')[0])
                chosen.append(second)
        vals = {}
        for o in chosen:
            vals[o] = ctx.choice('value:' + o, OPTIONS[o])
            set_option(comp, o, vals[o])
        detail = {'backend': backend, 'options': {o: vals[o] for o in chosen}}
        try:
            want = resolved(comp)
        except errors.FlowIRException as e:
            # the original itself is not a valid component (e.g. replicate with aggregate): outside the claim
            ctx.assume(False)
        flat = Dosini._flowir_component_to_dict(copy.deepcopy(comp))
        ctx.check(all(isinstance(k, str) for k in flat), 'flattened options have string keys', detail)
        as_text = {k: ('' if v is None else str(v)) for k, v in flat.items()}     # what configparser would store
        errs = []
        parsed = Dosini.parse_component(dict(as_text), 'comp', 1, out_errors=errs)
        ctx.check(not errs, 'the written options are accepted by the reader', (detail, [str(e) for e in errs], as_text))
        FlowIR.convert_component_types(parsed, ignore_convert_errors=False, is_primitive=True)
        try:
            got = resolved(parsed)
        except errors.FlowIRException as e:
            ctx.check(False, 'the re-read component resolves', (detail, repr(e), as_text))
        diffs = {}
        for sect in ('command', 'references', 'workflowAttributes', 'resourceRequest', 'resourceManager', 'executors', 'variables'):
            if want.get(sect) != got.get(sect):
                a, b = want.get(sect), got.get(sect)
                if isinstance(a, dict) and isinstance(b, dict):
                    diffs[sect] = {k: (a.get(k), b.get(k)) for k in set(a) | set(b) if a.get(k) != b.get(k)}
                else:
                    diffs[sect] = (a, b)
        ctx.check(not diffs, 'written then re-read component resolves to the same configuration', (detail, diffs, as_text))
        ctx.witness('roundtrip_compared')
        if len(chosen) == 2:
            ctx.witness('pair_compared')
        return (backend, chosen)
    return body


def body_disk(ctx):
    """The on-disk half: FlowIRConcrete.instance() -> Dosini.dump(is_instance=True) -> Dosini.load_from_directory ->
    FlowIRConcrete, compared component by component (and environments / status / output sections)."""
    n_stages = ctx.choice('number_of_stages', [1, 2, 3, 11, 12])
    backend = ctx.choice('backend', ['local', 'lsf'])
    opt = ctx.choice('option', ['none', 'workflowAttributes.maxRestarts', 'workflowAttributes.repeatInterval',
                                'resourceRequest.numberProcesses', 'command.resolvePath', 'workflowAttributes.shutdownOn'])
    with_env = ctx.flag('named_environment')
    with_stage_vars = ctx.flag('stage_variables')
    comps = []
    for st in range(n_stages):
        c = {'stage': st, 'name': 'comp%s' % chr(ord('a') + st), 'command': {'executable': 'bin/run', 'arguments': '-s %(label)s %(gv)s'},
             'variables': {'label': 'stage-%d' % st}, 'resourceManager': {'config': {'backend': backend}}}
        if st > 0:
            c['references'] = ['stage%d.comp%s:ref' % (st - 1, chr(ord('a') + st - 1))]
            c['command']['arguments'] += ' stage%d.comp%s:ref' % (st - 1, chr(ord('a') + st - 1))
        if with_env:
            c['command']['environment'] = 'myenv'
        if opt != 'none' and st == n_stages - 1:
            set_option(c, opt, ctx.choice('value', OPTIONS[opt]))
        comps.append(c)
    doc = {'components': comps, 'variables': {'default': {'global': {'gv': 'global-value'}, 'stages': {}}},
           'status-report': {st: {'stage-weight': round(1.0 / n_stages, 3) if n_stages in (1, 2) else 0.0} for st in range(n_stages)}}
    if with_stage_vars:
        doc['variables']['default']['stages'] = {st: {'sv': 'stage-var-%d' % st} for st in range(n_stages)}
        for c in comps:
            c['command']['arguments'] += ' %(sv)s'
    if with_env:
        doc['environments'] = {'default': {'myenv': {'A': 'b', 'DEFAULTS': 'PATH'}}}
    original = FlowIRConcrete(doc, 'default', {})
    inst = original.instance(ignore_errors=True)
    d = tempfile.mkdtemp(prefix='verif-c19-')
    try:
        Dosini().dump(inst, d, is_instance=True)
        errs = []
        loaded = Dosini().load_from_directory(d, [], {}, is_instance=True, out_errors=errs)
    finally:
        shutil.rmtree(d, ignore_errors=True)
    detail = {'stages': n_stages, 'backend': backend, 'option': opt, 'environment': with_env, 'stage_variables': with_stage_vars}
    ctx.check(not errs, 'the dumped instance loads without errors', (detail, [str(e)[:200] for e in errs]))
    again = FlowIRConcrete(loaded, 'default', {})
    ids_a = sorted(original.get_component_identifiers(True))
    ids_b = sorted(again.get_component_identifiers(True))
    ctx.check(ids_a == ids_b, 'the reloaded description has the same components', (detail, ids_a, ids_b))
    for cid in ids_a:
        a = original.get_component_configuration(cid, raw=False, include_default=True, is_primitive=True)
        b = again.get_component_configuration(cid, raw=False, include_default=True, is_primitive=True)
        diffs = {}
        for sect in ('command', 'references', 'workflowAttributes', 'resourceRequest', 'resourceManager', 'executors'):
            if a.get(sect) != b.get(sect):
                diffs[sect] = (a.get(sect), b.get(sect))
        va = {k: str(v) for k, v in a.get('variables', {}).items()}
        vb = {k: str(v) for k, v in b.get('variables', {}).items()}
        missing = {k: (va[k], vb.get(k)) for k in va if vb.get(k) != va[k]}
        ctx.check(not diffs and not missing, 'every component resolves to the same configuration and variables after the reload',
                  (detail, cid, diffs, missing))
    if with_env:
        ctx.check(again.get_environment('myenv') == original.get_environment('myenv'), 'environments survive the reload', detail)
    sa = {k: float(v.get('stage-weight', 0)) for k, v in original.get_status().items()}
    sb = {k: float(v.get('stage-weight', 0)) for k, v in again.get_status().items()}
    ctx.check(sa == sb, 'the status section survives the reload', (detail, sa, sb))
    ctx.witness('disk_roundtrip_compared')
    if n_stages >= 11:
        ctx.witness('two_digit_stage_index')
    return (n_stages, opt)


def factory(param):
    if param.get('name') == 'disk':
        return body_disk
    return make_body(param['pairs'])


def signature(param, assignment, message, detail):
    try:
        opts = sorted(detail[0]['options'])
        diffs = detail[1]
        where = sorted(diffs) if isinstance(diffs, dict) else ''
    except Exception:
        opts, where = '', ''
    return '%s|options=%s|sections=%s' % (message, ','.join(opts) if opts else '', where)


def main(tier, seed, only=None):
    rep = Report('C19', tier, seed)
    rep.functions = ['Dosini.dump / _dump_components / _dump_status / configuration_for_stage', 'Dosini.load_from_directory / _discover_stages / parse_stage / parse_status / parse_environment_dicts', 'FlowIRConcrete.instance', 'Dosini._flowir_component_to_dict', '_comp_command_to_dict', '_comp_executors_to_str', '_comp_resource_manager_to_str',
                     '_comp_resource_request_to_dict', '_comp_workflow_attributes_to_dict', '_translate_dict_to_dict',
                     'Dosini.parse_component', 'Dosini.validate_component', 'FlowIR.convert_component_types',
                     'FlowIRConcrete.get_component_configuration']
    pairs = True
    rep.bounds = {'options': '%d component options (%s), values from small representative sets' % (len(OPTIONS), 'one at a time' if not pairs
                             else 'one at a time and all pairs within a section'),
                  'backends': ['local', 'simulator', 'lsf', 'kubernetes'],
                  'disk round trip': 'Dosini.dump(is_instance=True) + load_from_directory on a scratch directory: 1, 2, 3, 11 or 12 stages, one optional option, named environment, stage variables, status weights'}
    rep.outside = ['the docker backend (its options have no DOSINI spelling)', 'DOSINIExperimentConfiguration and non-instance packages (variables.conf, platform files)', 'output sections', 'combinations of more than two options']
    rep.assumptions = ['configparser stores str(value) for every option (modelled by str())']
    rep.explanation = ('bounded symbolic execution (symx/z3) over the backend, the option(s) present and their values; the real flatten and '
                       'parse functions run on every path and both sides are resolved with the real FlowIRConcrete')
    rep.required_witnesses = ['roundtrip_compared', 'disk_roundtrip_compared', 'two_digit_stage_index'] + (['pair_compared'] if pairs else [])
    s = explore_parallel('dosini-roundtrip', factory, [{'pairs': pairs, 'name': 'pairs' if pairs else 'single'}, {'name': 'disk'}],
                         signature=signature, seed=seed, chunk=50, validate=False)
    rep.add(s)
    return rep.finish()


def replay(v):
    st, msg, detail = replay_assignment(factory, v['param'], v['assignment'])
    print('replay: %s %s %s' % (st, msg, str(detail)[:1500]))
    return 1 if st == 'violation' else 0
