"""C15 -- loading a package is deterministic (engine E1; iteration order of hash containers / directory listings = solver choice).

The quantifier of the property ("across processes started with different hash seeds and differently ordered but equal
input documents") is brought inside one symbolic execution by the standard move for an uncontrolled environment: every
source of order the loader does not control is replaced by a stub that returns its elements in an order the solver picks.

  * `set` / `frozenset` as named in the modules conf, flowir, dsl, graph, storage are shadowed by subclasses whose iteration
    order is decided per *iteration event* (ascending by repr, or reversed);
  * `os.listdir` and `glob.glob` as used by those modules return their entries in a decided order;
  * the key order of every mapping of the input document is ascending or descending (equal documents, different order).

One path = the real loader run twice on the same package: a baseline (everything ascending) and a deviation (everything
descending, or exactly one iteration event reversed, the event index being the symbolic variable).  The canonical dumps of
graph, resolved configurations, environments and memoization hashes must be equal, and user variable files must be layered
in the order given.  Because the model is deliberately more liberal than CPython (e.g. small ints always iterate in the
same order), a difference found in the model is only reported after it has been reproduced on the unmodified code in
fresh interpreter processes started with different PYTHONHASHSEED values; otherwise it is recorded as inconclusive.
"""
import builtins
import copy
import glob as _glob
import json
import os
import shutil
import subprocess
import sys
import tempfile
import types

import yaml

import experiment.model.conf as conf
import experiment.model.graph as graph
import experiment.model.storage as storage
import experiment.model.frontends.flowir as flowir
import experiment.model.frontends.dsl as dsl

from harness.rt_stubs import Patch
from symx.runner import explore_parallel, Report, replay_assignment, VERIF

_set, _frozenset = builtins.set, builtins.frozenset


class Order(object):
    """Decides the order of every iteration event of one loader run."""

    def __init__(self, descending=False, flip_event=None):
        self.descending = descending
        self.flip_event = flip_event
        self.events = 0
        self.flipped_at = None

    def arrange(self, items, where=''):
        items = sorted(items, key=lambda x: (type(x).__name__, repr(x)))
        if len(items) < 2:
            return items
        k = self.events
        self.events += 1
        rev = self.descending != (k == self.flip_event)
        if k == self.flip_event:
            self.flipped_at = (where, [repr(x)[:40] for x in items[:4]])
        return items[::-1] if rev else items


ORDER = Order()


class _Meta(type):
    def __instancecheck__(cls, inst):
        return isinstance(inst, cls._base)


def _wrap(cls, base):
    def binop(name):
        def f(self, *others):
            return cls(getattr(base, name)(self, *others))
        f.__name__ = name
        return f
    for name in ('union', 'intersection', 'difference', 'symmetric_difference', 'copy', '__or__', '__and__', '__sub__', '__xor__'):
        setattr(cls, name, binop(name))


class ChoosySet(_set, metaclass=_Meta):
    _base = _set

    def __iter__(self):
        return iter(ORDER.arrange(list(_set.__iter__(self)), 'set'))


class ChoosyFrozenSet(_frozenset, metaclass=_Meta):
    _base = _frozenset

    def __iter__(self):
        return iter(ORDER.arrange(list(_frozenset.__iter__(self)), 'frozenset'))


_wrap(ChoosySet, _set)
_wrap(ChoosyFrozenSet, _frozenset)


class _OsProxy(object):
    def __getattr__(self, name):
        return getattr(os, name)

    def listdir(self, path='.'):
        return ORDER.arrange(os.listdir(path), 'listdir')


class _GlobProxy(object):
    def __getattr__(self, name):
        return getattr(_glob, name)

    def glob(self, *a, **k):
        return ORDER.arrange(_glob.glob(*a, **k), 'glob')


MODULES = [conf, graph, storage, flowir, dsl]


def shadowed():
    p = Patch()
    for m in MODULES:
        p.set(m, 'set', ChoosySet)
        p.set(m, 'frozenset', ChoosyFrozenSet)
        if hasattr(m, 'os'):
            p.set(m, 'os', _OsProxy())
        if hasattr(m, 'glob'):
            p.set(m, 'glob', _GlobProxy())
    return p


def reorder(obj, descending):
    """An equal document whose mappings list their keys in another order."""
    if isinstance(obj, dict):
        keys = sorted(obj, key=lambda k: (type(k).__name__, repr(k)), reverse=descending)
        return {k: reorder(obj[k], descending) for k in keys}
    if isinstance(obj, list):
        return [reorder(x, descending) for x in obj]
    return obj


# ------------------------------------------------------------------------------------------- packages
def flowir_document(ctx):
    repl = ctx.flag('with_replication')
    plat = ctx.flag('with_platform')
    comps = [
        {'stage': 0, 'name': 'src', 'command': {'executable': 'echo', 'arguments': '%(msg)s %(extra)s', 'environment': 'envA'},
         'workflowAttributes': ({'replicate': '%(n)s'} if repl else {})},
        {'stage': 0, 'name': 'work', 'command': {'executable': 'echo', 'arguments': 'src:ref -x %(msg)s', 'environment': 'envB'},
         'references': ['src:ref'], 'workflowAttributes': {'shutdownOn': ['KnownIssue', 'Killed'], 'restartHookOn': ['ResourceExhausted', 'UnknownIssue']}},
        {'stage': 0, 'name': 'side', 'command': {'executable': 'echo', 'arguments': 'src:ref work:ref'}, 'references': ['src:ref', 'work:ref']},
        {'stage': 1, 'name': 'agg', 'command': {'executable': 'echo', 'arguments': 'stage0.work:ref stage0.side:ref'},
         'references': ['stage0.work:ref', 'stage0.side:ref'], 'workflowAttributes': ({'aggregate': True} if repl else {})},
        {'stage': 1, 'name': 'tail', 'command': {'executable': 'echo', 'arguments': 'agg:ref %(msg)s'}, 'references': ['agg:ref']},
    ]
    doc = {'platforms': ['default', 'p'] if plat else ['default'],
           'variables': {'default': {'global': {'n': 2, 'msg': 'hello', 'extra': 'e0'}, 'stages': {0: {'sv': 's0'}, 1: {'sv': 's1'}}}},
           'environments': {'default': {'envA': {'A': 'a', 'Z': 'z', 'DEFAULTS': 'PATH:HOME'}, 'envB': {'B': '$A-b', 'A': 'a2'}}},
           'components': comps}
    if plat:
        doc['variables']['p'] = {'global': {'msg': 'on-p'}}
        doc['environments']['p'] = {'envA': {'A': 'a-on-p'}}
    return doc, ('p' if plat and ctx.flag('select_platform_p') else 'default')


DSL_NAMESPACE = {
    'entrypoint': {'entry-instance': 'main', 'execute': [{'target': '<entry-instance>', 'args': {'foo': 'FOO'}}]},
    'workflows': [
        {'signature': {'name': 'main', 'parameters': [{'name': 'foo'}]},
         'steps': {'one': 'inner', 'two': 'inner', 'solo': 'leaf'},
         'execute': [{'target': '<one>', 'args': {'x': '%(foo)s'}}, {'target': '<two>', 'args': {'x': 'other'}},
                     {'target': '<solo>', 'args': {'p': '<one/work>:output'}}]},
        {'signature': {'name': 'inner', 'parameters': [{'name': 'x'}]},
         'steps': {'gen': 'leaf', 'work': 'leafenv'},
         'execute': [{'target': '<gen>', 'args': {'p': '%(x)s'}}, {'target': '<work>', 'args': {'p': '<gen>:output'}}]}],
    'components': [
        {'signature': {'name': 'leaf', 'parameters': [{'name': 'p'}]},
         'command': {'executable': 'echo', 'arguments': '%(p)s', 'environment': {'A': 'a', 'B': 'b'}}},
        {'signature': {'name': 'leafenv', 'parameters': [{'name': 'p'}]},
         'command': {'executable': 'echo', 'arguments': '%(p)s', 'environment': {'C': 'c'}}}]}

VARFILES = {'first.yaml': {'global': {'msg': 'from-first', 'extra': 'e-first'}, 'stages': {0: {'sv': 'sv-first'}}},
            'second.yaml': {'global': {'msg': 'from-second'}, 'stages': {0: {'sv': 'sv-second'}}},
            'third.yaml': {'global': {'msg': 'from-third', 'extra': 'e-third'}}}


def canonical(g, cfg):
    out = {'nodes': sorted(g.graph.nodes), 'edges': sorted('%s->%s' % e for e in g.graph.edges), 'configuration': {},
           'environment': {}, 'hash': {}}
    for n, d in g.graph.nodes(data=True):
        # every node gets its stand-in working directory before any hash is computed (hashes look at the producers')
        d['componentInstance'] = types.SimpleNamespace(directory='/tmp')
    for n, d in g.graph.nodes(data=True):
        c = copy.deepcopy(g.configurationForNode(n, raw=False))
        for k in ('references',):
            if isinstance(c.get(k), list):
                c[k] = sorted(c[k])
        wa = c.get('workflowAttributes', {})
        for k in ('shutdownOn', 'restartHookOn'):
            if isinstance(wa.get(k), list):
                wa[k] = sorted(wa[k])
        out['configuration'][n] = json.loads(json.dumps(c, sort_keys=True, default=repr))
        try:
            out['environment'][n] = dict(cfg.environmentForNode(n))
        except Exception as e:
            out['environment'][n] = 'error %s' % type(e).__name__
        spec = d['componentSpecification']
        out['hash'][n] = [spec.memoization_hash, spec.memoization_hash_fuzzy]
    return out


def load_package(kind, doc, platform, var_order):
    """Runs the real loader on one concrete package; returns the canonical dump (used in-process and by the sub-processes)."""
    saved_env = os.environ.copy()
    os.environ.clear()
    os.environ.update({'PATH': '/usr/bin', 'HOME': '/home/u', 'A': 'launchA'})
    d = tempfile.mkdtemp(prefix='verif-c15-')
    try:
        if kind == 'dsl':
            ns = dsl.Namespace(**copy.deepcopy(doc))
            fl = dsl.namespace_to_flowir(ns)
            g = graph.WorkflowGraph.graphFromFlowIR(fl.raw(), {}, primitive=False)
            return canonical(g, g.configuration)
        os.makedirs(os.path.join(d, 'conf'))
        with open(os.path.join(d, 'conf', 'flowir_package.yaml'), 'w') as f:
            yaml.safe_dump(doc, f, sort_keys=False)
        files = []
        for name in var_order:
            p = os.path.join(d, name)
            with open(p, 'w') as f:
                yaml.safe_dump(VARFILES[name], f, sort_keys=False)
            files.append(p)
        cfg = conf.ExperimentConfigurationFactory.configurationForExperiment(
            d, platform=platform, variable_files=files, createInstanceFiles=False, updateInstanceFiles=False, primitive=False)
        g = graph.WorkflowGraph(configuration=cfg, platform=platform, primitive=False)
        return canonical(g, cfg)
    finally:
        shutil.rmtree(d, ignore_errors=True)
        os.environ.clear()
        os.environ.update(saved_env)


def differences(a, b):
    out = []
    for sect in ('nodes', 'edges'):
        if a[sect] != b[sect]:
            out.append(sect)
    for sect in ('configuration', 'environment', 'hash'):
        for n in sorted(_set(a[sect]) | _set(b[sect])):
            if a[sect].get(n) != b[sect].get(n):
                out.append('%s of %s' % (sect, n))
    return out


CONFIRM_CACHE = None     # directory shared by the forked workers: one confirmation per distinct package


def confirm_in_processes(kind, doc, platform, var_order, seeds=12):
    """The same package loaded by the unmodified code in fresh interpreters with different hash seeds."""
    job = json.dumps({'kind': kind, 'doc': doc, 'platform': platform, 'var_order': var_order})
    import hashlib
    cache = os.path.join(CONFIRM_CACHE, hashlib.sha1(job.encode()).hexdigest() + '.json') if CONFIRM_CACHE else None
    if cache and os.path.exists(cache):
        try:
            with open(cache) as f:
                return json.load(f)
        except ValueError:
            pass
    distinct = _confirm(job, seeds)
    if cache:
        tmp = cache + '.%d' % os.getpid()
        with open(tmp, 'w') as f:
            json.dump(distinct, f)
        os.rename(tmp, cache)
    return distinct


def _confirm(job, seeds):
    procs = []
    for seed in range(1, seeds + 1):
        env = dict(os.environ, PYTHONHASHSEED=str(seed), PYTHONPATH=VERIF + os.pathsep + os.environ.get('PYTHONPATH', ''),
                   PYTHONWARNINGS='ignore')
        procs.append((seed, subprocess.Popen([sys.executable, '-m', 'harness.c15_determinism', '--load'], stdin=subprocess.PIPE,
                                             stdout=subprocess.PIPE, stderr=subprocess.DEVNULL, env=env, cwd=VERIF, text=True)))
    dumps = {}
    for seed, p in procs:
        out, _ = p.communicate(job, timeout=300)
        dumps[seed] = out.strip().splitlines()[-1] if out.strip() else 'no output'
    distinct = {}
    for seed, o in dumps.items():
        distinct.setdefault(o, []).append(seed)
    return distinct


def body_factory(kind):
    def body(ctx):
        global ORDER
        if kind == 'dsl':
            doc, platform, var_order = copy.deepcopy(DSL_NAMESPACE), 'default', []
        else:
            doc, platform = flowir_document(ctx)
            var_order = list(ctx.choice('variable_files', [(), ('first.yaml', 'second.yaml'), ('second.yaml', 'first.yaml'),
                                                           ('first.yaml', 'third.yaml', 'second.yaml'),
                                                           ('third.yaml', 'second.yaml', 'first.yaml')]))
        detail = {'kind': kind, 'platform': platform, 'variable_files': var_order}
        with shadowed():
            ORDER = Order(False, None)
            base = load_package(kind, reorder(doc, False), platform, var_order)
            n_events = ORDER.events
            cap = min(n_events, EVENT_CAP)
            dev = ctx.choice('deviation', ['all-descending', 'document-keys-descending'] + ['event-%d' % i for i in range(cap)])
            if dev == 'all-descending':
                ORDER = Order(True, None)
                other = load_package(kind, reorder(doc, False), platform, var_order)
            elif dev == 'document-keys-descending':
                ORDER = Order(False, None)
                other = load_package(kind, reorder(doc, True), platform, var_order)
            else:
                ORDER = Order(False, int(dev.split('-')[1]))
                other = load_package(kind, reorder(doc, False), platform, var_order)
            flipped_at = ORDER.flipped_at
            ORDER = Order()
        detail.update(deviation=dev, iteration_events=n_events, flipped_at=flipped_at)
        ctx.witness('two_loads_compared')
        if n_events > 0:
            ctx.witness('order_events_present')
        diffs = differences(base, other)
        if var_order:
            ctx.witness('variable_files_layered')
            expect = {'msg': VARFILES[[f for f in var_order if 'msg' in VARFILES[f]['global']][-1]]['global']['msg'],
                      'extra': VARFILES[[f for f in var_order if 'extra' in VARFILES[f]['global']][-1]]['global']['extra']}
            for which, dump in (('baseline', base), (dev, other)):
                node = [n for n in dump['nodes'] if n.startswith('stage0.src')][0]
                got = dump['configuration'][node]['command']['arguments']
                if got != '%s %s' % (expect['msg'], expect['extra']):
                    diffs.append('user variable files are not layered in the order given under %s: %r, expected %r'
                                 % (which, got, '%s %s' % (expect['msg'], expect['extra'])))
        if diffs:
            detail['differences'] = diffs[:6]
            distinct = confirm_in_processes(kind, doc, platform, var_order)
            detail['distinct_results_across_hash_seeds'] = {str(v): len(v) for v in distinct.values()}
            layered_wrong = False
            if var_order:
                for o in distinct:
                    try:
                        dd = json.loads(o)
                        node = [n for n in dd['nodes'] if n.startswith('stage0.src')][0]
                        if dd['configuration'][node]['command']['arguments'] != '%s %s' % (expect['msg'], expect['extra']):
                            layered_wrong = True
                    except Exception:
                        pass
            ctx.check(not layered_wrong, 'user variable files are layered in the order given', detail)
            ctx.check(len(distinct) <= 1, 'loading the same package gives the same result in every process (order of hash containers / listings)', detail)
            # the model allowed an order CPython never produces for these values: not a finding
            ctx.witness('model_difference_not_reproduced')
            return ('inconclusive', dev, tuple(diffs[:3]))
        ctx.check(True, 'the two loads agree on nodes, edges, configurations, environments and hashes', None)
        return ('equal', dev)
    return body


EVENT_CAP = 60


def factory(param):
    return body_factory(param['kind'])


def signature(param, assignment, message, detail):
    d = detail if isinstance(detail, dict) else {}
    what = 'with-variable-files' if d.get('variable_files') else 'no-variable-files'
    return '%s|%s|%s' % (param['kind'], message, what)


def main(tier, seed, only=None):
    global EVENT_CAP
    rep = Report('C15', tier, seed)
    EVENT_CAP = 200 if tier == 'quick' else 1400
    rep.functions = ['conf.ExperimentConfigurationFactory.configurationForExperiment', 'FlowIRExperimentConfiguration.__init__/parametrize/'
                     'layer_many_variable_files/_patch_in_variable_files', 'graph.WorkflowGraph.__init__/_createCompleteGraph/configurationForNode',
                     'FlowIRConcrete.replicate/instance', 'dsl.namespace_to_flowir', 'ComponentSpecification.memoization_hash/_memoization_info_to_hash',
                     'conf.environmentForNode']
    rep.bounds = {'packages': 'FlowIR family (replication / second platform present or not, either platform, 0, 2 or 3 user variable files in 4 orders) and one '
                              'DSL namespace (a workflow template instantiated twice, shared and distinct environments)',
                  'order sources': 'set/frozenset as named in conf, flowir, dsl, graph, storage (incl. results of union/difference/copy), os.listdir, glob.glob, key order of the input mappings',
                  'deviation': 'everything descending, document keys descending, or exactly one of the first %d iteration events reversed (event index symbolic)' % EVENT_CAP}
    rep.outside = ['set literals / comprehensions and sets built inside other modules (networkx, pydantic, yaml) keep the order of this process', 'more than one reversed '
                   'iteration event unless all are reversed', 'iteration events beyond the cap', 'DOSINI and CWL packages', 'dict ordering inside PyYAML / pydantic-core (C code)']
    rep.assumptions = ['a difference in the model counts only after fresh interpreters with 12 different PYTHONHASHSEED values reproduce it on the unmodified code',
                       'os.environ is a fixed three-variable launch environment during a load']
    rep.explanation = ('bounded symbolic execution (symx/z3): package shape, the order of user variable files and the one iteration event that deviates are solver '
                       'variables; hash-container iteration and directory listing are nondeterministic stubs; each path loads the package twice with the real '
                       'loader and compares canonical dumps; model differences are confirmed across real processes before being reported')
    rep.required_witnesses = ['two_loads_compared', 'order_events_present', 'variable_files_layered']
    params = [{'kind': 'flowir', 'name': 'flowir'}, {'kind': 'dsl', 'name': 'dsl'}]
    if only:
        params = [p for p in params if p['name'] in only]
        rep.required_witnesses = []
    global CONFIRM_CACHE
    CONFIRM_CACHE = tempfile.mkdtemp(prefix='verif-c15-confirm-')
    try:
        s = explore_parallel('order-independence', factory, params, signature=signature, seed=seed, chunk=4, validate=False)
        rep.engine_stats['packages_confirmed_in_fresh_processes'] = len(os.listdir(CONFIRM_CACHE))
        rep.engine_stats['hash_seeds_per_confirmation'] = 12
    finally:
        shutil.rmtree(CONFIRM_CACHE, ignore_errors=True)
    rep.add(s)
    return rep.finish()


def replay(v):
    st, msg, detail = replay_assignment(factory, v['param'], v['assignment'])
    print('replay: %s %s %s' % (st, msg, str(detail)[:3000]))
    return 1 if st == 'violation' else 0


if __name__ == '__main__' and '--load' in sys.argv:
    import logging
    logging.disable(logging.CRITICAL)
    job = json.loads(sys.stdin.read())
    doc = job['doc']
    if job['kind'] != 'dsl':
        # JSON turned the integer stage keys into strings
        def fix(o):
            if isinstance(o, dict):
                return {(int(k) if isinstance(k, str) and k.isdigit() else k): fix(x) for k, x in o.items()}
            if isinstance(o, list):
                return [fix(x) for x in o]
            return o
        doc = fix(doc)
    print(json.dumps(load_package(job['kind'], doc, job['platform'], job['var_order']), sort_keys=True))
