"""C05 -- DoWhile unrolling is wired correctly for any number of iterations.

E3: the sort keys that order loop iterations are lifted from the AST of the real functions
    (WorkflowGraph.compute_dowhile_state, _discover_dowhile_placeholders, DataReference.resolve's
    looped_reference_to_paths, flowir.map_placeholder_id_to_iteration) and z3/cvc5 decide, over symbolic
    iteration numbers i < j <= 999 rendered as decimal strings and a symbolic component name, whether the
    key is strictly increasing in the iteration number.
E1: the real graph (graphFromPackage on a scratch package) is driven through k = 1..K iterations of the real
    instantiate_dowhile_next_iteration for a symbolic document shape and symbolic K; after every iteration
    the nodes, edges, placeholder metadata, loop state and reference resolution are compared with the rules.
"""
import ast
import inspect
import os
import shutil
import subprocess
import tempfile
import textwrap
import time
import types

import yaml
import z3

import experiment.model.graph as graph
import experiment.model.storage as storage
import experiment.model.frontends.flowir as flowir
from experiment.model.frontends.flowir import FlowIR

from symx.runner import explore_parallel, Report, replay_assignment
from symx import cvc5_backend


# ------------------------------------------------------------------ E3: ordering lemmas
class NotLifted(Exception):
    pass


def find_sort_keys(fn, label):
    """Returns [(site, lambda_arg_name, key_expr_ast, reverse)] for every sorted(..., key=lambda ...) in fn."""
    tree = ast.parse(textwrap.dedent(inspect.getsource(fn)))
    out = []
    for node in ast.walk(tree):
        if isinstance(node, ast.Call) and getattr(node.func, 'id', None) in ('sorted', 'max', 'min'):
            key = [k.value for k in node.keywords if k.arg == 'key']
            rev = [k.value for k in node.keywords if k.arg == 'reverse']
            if key and isinstance(key[0], ast.Lambda):
                src = ast.unparse(key[0])
                if "'#'" in src:
                    out.append(('%s:%d' % (label, node.lineno), key[0].args.args[0].arg, key[0].body,
                                bool(rev and getattr(rev[0], 'value', False))))
    return out


def sym_key(expr, arg, elem):
    """Translate the key expression over z3 strings.  elem: z3 string, or tuple (stage_int, name_string)."""
    def before(c, sep):
        return z3.SubString(c, 0, z3.IndexOf(c, z3.StringVal(sep), 0))

    def after(c, sep):
        return z3.SubString(c, z3.IndexOf(c, z3.StringVal(sep), 0) + 1, z3.Length(c))

    def ev(e):
        if isinstance(e, ast.Name) and e.id == arg:
            return elem
        if isinstance(e, ast.Subscript) and isinstance(e.slice, ast.Constant):
            base = e.value
            idx = e.slice.value
            # <x>.split(sep, 1)[idx]
            if isinstance(base, ast.Call) and isinstance(base.func, ast.Attribute) and base.func.attr == 'split' \
                    and len(base.args) == 2 and isinstance(base.args[0], ast.Constant) and base.args[1].value == 1:
                s = ev(base.func.value)
                sep = base.args[0].value
                if idx == 0:
                    return before(s, sep)
                if idx == 1:
                    return after(s, sep)
            v = ev(base)
            if isinstance(v, tuple):
                return v[idx]
            raise NotLifted('subscript %s' % ast.unparse(e))
        if isinstance(e, ast.Call) and getattr(e.func, 'id', None) == 'int' and len(e.args) == 1:
            v = ev(e.args[0])
            if z3.is_string(v):
                return z3.StrToInt(v)
            return v
        raise NotLifted(ast.unparse(e))
    return ev(expr)


def ordering_lemmas(rep, tier):
    sites = []
    sites += [(s, 'tuple') for s in find_sort_keys(graph.WorkflowGraph.compute_dowhile_state, 'graph.compute_dowhile_state')]
    sites += [(s, 'tuple') for s in find_sort_keys(graph.WorkflowGraph._discover_dowhile_placeholders,
                                                    'graph._discover_dowhile_placeholders')]
    sites += [(s, 'ref') for s in find_sort_keys(graph.DataReference.resolve, 'graph.DataReference.resolve')]
    sites += [(s, 'tuple') for s in find_sort_keys(flowir.map_placeholder_id_to_iteration,
                                                    'flowir.map_placeholder_id_to_iteration')]
    es = rep.engine_stats
    es['sort_sites'] = [s[0][0] for s in sites]
    if len(sites) < 4:
        # the code was restructured: the lemmas cover what could be lifted, the real-graph histories cover behaviour
        es.setdefault('inconclusive', []).append({'note': 'expected 4 iteration-ordering sites, lifted %d: %s' % (len(sites), es['sort_sites'])})
        es['exhaustive'] = False
        rep.notes.append('only %d of 4 iteration-ordering sites could be lifted' % len(sites))
    digits = z3.Union(z3.Re('0'), z3.Concat(z3.Range('1', '9'), z3.Star(z3.Range('0', '9'))))
    namere = z3.Plus(z3.Union(z3.Range('a', 'z'), z3.Re('.'), z3.Re('-')))
    for ((site, arg, body, reverse), kind), cname in [(sk, nmc) for sk in sites for nmc in ('add', 'a.b', 'x-1')]:
        i, j = z3.Ints('i j')
        di, dj = z3.Strings('di dj')
        nm = z3.StringVal(cname)
        base = [0 <= i, i < j, j <= 999, z3.InRe(di, digits), z3.InRe(dj, digits), z3.StrToInt(di) == i,
                z3.StrToInt(dj) == j, z3.Length(di) <= 3, z3.Length(dj) <= 3]

        def elem(d):
            name = z3.Concat(d, z3.StringVal('#'), nm)
            if kind == 'tuple':
                return (z3.IntVal(1), name)
            return z3.Concat(z3.StringVal('stage1.'), name)
        try:
            ki, kj = sym_key(body, arg, elem(di)), sym_key(body, arg, elem(dj))
        except NotLifted as e:
            es.setdefault('inconclusive', []).append({'site': site, 'note': 'key not lifted: %s' % e})
            es['exhaustive'] = False
            continue
        bad = kj <= ki    # strings: lexicographic (str.<=); ints: numeric
        s = z3.Solver()
        s.set('timeout', 3000)
        s.add(*base)
        s.add(bad)
        t0 = time.time()
        # z3 5.1 answers 'unknown' on the 3-digit domain; it cross-checks the sub-domain j <= 120, cvc5 decides j <= 999
        s.push()
        s.add(j <= 120)
        r3 = str(s.check())
        if r3 == 'sat':
            m = s.model()
            model3 = {'i': m[i].as_long(), 'j': m[j].as_long(), 'name': cname}
        s.pop()
        dt = time.time() - t0
        model = None
        if r3 == 'sat':
            model = model3
        t1 = time.time()
        smt2 = s.to_smt2()
        r5, vals = cvc5_backend.solve(smt2, 60000, ['i', 'j'])
        rb = _cvc5_binary(smt2, 60)
        if rb in ('sat', 'unsat') and r5 in ('sat', 'unsat') and rb != r5:
            rep.harness_errors.append({'message': 'solver disagreement on %s: cvc5 wheel %s, cvc5 binary %s' % (site, r5, rb)})
        if r3 in ('sat', 'unsat') and r5 in ('sat', 'unsat') and r3 != r5 and r3 == 'sat':
            pass   # z3 looked at the sub-domain j <= 120 only: sat there implies sat on the full domain
        if r5 == 'sat' and model is None and 'i' in vals:
            model = {'i': vals['i'], 'j': vals['j'], 'name': cname}
        dt5 = time.time() - t1
        es['evaluations'] = es.get('evaluations', 0) + 1
        es['distinct_nontrivial'] = es.get('distinct_nontrivial', 0) + 1
        es['obligations'] = es.get('obligations', 0) + 1
        es['queries'] = es.get('queries', 0) + 2
        es['solver_s'] = es.get('solver_s', 0.0) + dt + dt5
        rep.notes.append('ordering lemma %-52s name=%-4s key=%-44s cvc5-1.4=%s cvc5-1.0=%s (%.1fs) z3[j<=120,3s]=%s' % (
            site, cname, ast.unparse(body), r5, rb, dt5, r3))
        rep.samples.append({'site': site, 'key': ast.unparse(body), 'z3': r3, 'cvc5': r5, 'counterexample': model})
        if r3 == 'sat' or r5 == 'sat':
            # replay on the real lambda text
            f = eval('lambda %s: %s' % (arg, ast.unparse(body)))
            if model:
                mk = (lambda n: (1, '%d#%s' % (n, model['name']))) if kind == 'tuple' else \
                    (lambda n: 'stage1.%d#%s' % (n, model['name']))
                reproduced = not (f(mk(model['i'])) < f(mk(model['j'])))
            else:
                reproduced = True
            if reproduced:
                rep.extra_violations.append({'key': 'ordering|%s' % site.split(':')[0], 'section': 'ordering-lemmas',
                                             'message': 'iterations %s are ordered lexicographically by %s' % (model, site),
                                             'model': model, 'site': site})
            else:
                es.setdefault('inconclusive', []).append({'site': site, 'note': 'counterexample did not replay'})
        elif r3 == 'unsat' or r5 == 'unsat':
            es['discharged'] = es.get('discharged', 0) + 1
        else:
            es.setdefault('inconclusive', []).append({'site': site, 'z3': r3, 'cvc5': r5})
            es['exhaustive'] = False


def _cvc5_binary(smt2, timeout):
    fd, path = tempfile.mkstemp(suffix='.smt2')
    try:
        with os.fdopen(fd, 'w') as f:
            f.write('(set-logic QF_SLIA)\n' + smt2)
        try:
            r = subprocess.run(['cvc5', '--strings-exp', '--tlimit=%d' % (timeout * 1000), path], capture_output=True,
                               text=True, timeout=timeout + 10)
        except (subprocess.TimeoutExpired, OSError):
            return 'timeout'
        out = (r.stdout + r.stderr).split()
        if any(t.startswith('(error') for t in out):
            return 'error'
        for tok in ('unsat', 'sat', 'unknown'):
            if tok in out:
                return tok
        return 'timeout'
    finally:
        os.unlink(path)


# ------------------------------------------------------------------ E1: histories on the real graph
def documents(ctx):
    """Symbolic DoWhile document shape."""
    with_loop_binding = ctx.flag('loop_binding')
    two_stages = ctx.flag('loop_spans_two_stages')
    extra = ctx.flag('extra_independent_component')
    cond_on = ctx.choice('condition_component', ['stop', 'work'])
    twice = ctx.flag('binding_used_twice_in_arguments')
    comps = [
        {'name': 'work', 'command': {'executable': 'echo', 'arguments': 'number:output' + (' and number:output' if twice else '')},
         'references': ['number:output']},
        {'name': 'stop', 'stage': 1 if two_stages else 0,
         'command': {'executable': 'echo', 'arguments': ('stage0.work:output' if two_stages else 'work:output')},
         'references': ['stage0.work:output' if two_stages else 'work:output']},
    ]
    both = ctx.flag('component_using_binding_and_its_current_producer')
    if both:
        # consumes the loop-carried value (previous iteration's stop) and the current iteration's stop
        sref = 'stage1.stop:output' if two_stages else 'stop:output'
        comps.append({'name': 'post', 'stage': 1 if two_stages else 0,
                      'command': {'executable': 'echo', 'arguments': 'number:output %s' % sref},
                      'references': ['number:output', sref]})
    if extra:
        # an independent looped component whose name starts with the name of the condition producer
        comps.append({'name': cond_on + '_more', 'command': {'executable': 'echo', 'arguments': 'hi'}, 'references': []})
    dw = {'type': 'DoWhile', 'inputBindings': {'number': {'type': 'output'}},
          'condition': '%s/next:output' % (cond_on if not (two_stages and cond_on == 'stop') else 'stage1.stop'),
          'components': comps}
    if with_loop_binding:
        dw['loopBindings'] = {'number': ('stage1.stop:output' if two_stages else 'stop:output')}
    outside_stage = 3 if two_stages else 2
    main = {'components': [
        {'stage': 0, 'name': 'source', 'command': {'executable': 'echo', 'arguments': '0'}},
        {'stage': 1, '$import': 'dowhile.yaml', 'name': 'loop', 'bindings': {'number': 'stage0.source:output'}},
        {'stage': outside_stage, 'name': 'report', 'command': {'executable': 'echo',
                                                               'arguments': 'stage1.work:ref stage1.work:loopref'},
         'references': ['stage1.work:ref', 'stage1.work:loopref']},
    ]}
    shape = {'loop_binding': with_loop_binding, 'two_stages': two_stages, 'extra': extra, 'condition': cond_on, 'twice': twice,
             'both': both,
             'outside_stage': outside_stage}
    return main, dw, shape


KMIN = 1


class _Storage(object):
    def workingDirectoryForComponent(self, stage, name):
        return '/wd/stage%d/%s' % (stage, name)

    def resolvePath(self, p):
        return '/root/' + p


def body(ctx):
    main, dw, shape = documents(ctx)
    K = ctx.concretize(ctx.int('iterations', KMIN, 12))
    d = tempfile.mkdtemp(prefix='verif-c05-')
    try:
        os.makedirs(os.path.join(d, 'conf'))
        with open(os.path.join(d, 'conf', 'dowhile.yaml'), 'w') as f:
            yaml.safe_dump(dw, f)
        with open(os.path.join(d, 'conf', 'flowir_package.yaml'), 'w') as f:
            yaml.safe_dump(main, f)
        pkg = storage.ExperimentPackage.packageFromLocation(d)
        g = graph.WorkflowGraph.graphFromPackage(pkg, primitive=False, createInstanceConfiguration=False)
    finally:
        shutil.rmtree(d, ignore_errors=True)
    g.rootStorage = _Storage()
    extra_name = shape['condition'] + '_more'
    looped = ['work', 'stop'] + ([extra_name] if shape['extra'] else []) + (['post'] if shape['both'] else [])
    stage_of = {'work': 1, 'stop': 2 if shape['two_stages'] else 1, extra_name: 1, 'post': 2 if shape['two_stages'] else 1}
    dw_name = 'stage1.loop'
    for k in range(0, K + 1):
        if k > 0:
            doc = g._documents[FlowIR.LabelDoWhile][dw_name]['document']
            new = g.instantiate_dowhile_next_iteration(doc, k, False)
            ctx.check(sorted(new) == sorted('stage%d.%d#%s' % (stage_of[c], k, c) for c in looped),
                      'iteration k adds exactly one new instance of every looped component', (shape, k, new))
        nodes = set(g.graph.nodes)
        OS = shape['outside_stage']
        want = {'stage0.source', 'stage%d.report' % OS} | {'stage%d.%d#%s' % (stage_of[c], i, c) for c in looped for i in range(k + 1)}
        ctx.check(nodes == want, 'the workflow contains exactly instances 0..k of every looped component', (shape, k, sorted(nodes ^ want)))
        # wiring of every instance
        for i in range(k + 1):
            work = 'stage1.%d#work' % i
            stop = 'stage%d.%d#stop' % (stage_of['stop'], i)
            wp = set(g.graph.predecessors(work))
            if i == 0 or not shape['loop_binding']:
                want_wp = {'stage0.source'}
            else:
                want_wp = {'stage%d.%d#stop' % (stage_of['stop'], i - 1)}
            ctx.check(wp == want_wp, 'instance i takes its loop-carried input from instance i-1, other inputs from the original bindings',
                      (shape, k, work, sorted(wp), sorted(want_wp)))
            ctx.check(set(g.graph.predecessors(stop)) == {work}, 'inputs inside the loop come from the same iteration',
                      (shape, k, stop, sorted(g.graph.predecessors(stop))))
            conf = g.configurationForNode(work, raw=False)
            ctx.check(conf['variables'].get('loopIteration') == i, 'every instance knows its iteration number', (shape, work))
            carried = 'stage0.source' if (i == 0 or not shape['loop_binding']) else 'stage%d.%d#stop' % (stage_of['stop'], i - 1)
            toks = [FlowIR.ParseDataReferenceFull(t, 1) for t in conf['command']['arguments'].split() if ':' in t]
            ctx.check(toks and all('stage%d.%s' % (t[0], t[1]) == carried for t in toks),
                      'every occurrence of a binding in the arguments is rewritten to the bound producer', (shape, k, work, conf['command']['arguments']))
            if shape['both']:
                post = 'stage%d.%d#post' % (stage_of['post'], i)
                pconf = g.configurationForNode(post, raw=False)
                ptoks = ['stage%d.%s' % t[:2] for t in [FlowIR.ParseDataReferenceFull(t, stage_of['post']) for t in pconf['command']['arguments'].split() if ':' in t]]
                ctx.check(ptoks == [carried, stop], 'a component using a loop-carried input and the current producer gets both references right',
                          (shape, k, post, pconf['command']['arguments'], [carried, stop]))
                ctx.check(set(g.graph.predecessors(post)) == {carried, stop}, 'its predecessors are the previous and the current iteration',
                          (shape, k, post, sorted(g.graph.predecessors(post))))
                ctx.witness('binding_and_current_producer_checked')
        # placeholders, state, reference resolution
        ph = g._placeholders['stage1.work']
        ctx.check(ph['latest'] == 'stage1.%d#work' % k, 'latest instance is the numerically highest iteration',
                  (shape, k, ph['latest']))
        ctx.check(sorted(ph['represents']) == sorted('stage1.%d#work' % i for i in range(k + 1)),
                  'placeholder represents all instances', (shape, k))
        st = g._documents[FlowIR.LabelDoWhile][dw_name]['state']
        cond_c = shape['condition']
        ctx.check(st['currentIteration'] == k, 'current iteration is k', (shape, k, st))
        ctx.check(st['currentCondition'] == 'stage%d.%d#%s/next:output' % (stage_of[cond_c], k, cond_c),
                  'current condition is the one produced by iteration k', (shape, k, st))
        # the public state computation must not depend on the order in which the looped ids are enumerated
        ids = sorted(g._get_all_looped_ids())
        for order in (ids, list(reversed(ids))):
            g.compute_dowhile_state(dw_name, list(order))
            st2 = g._documents[FlowIR.LabelDoWhile][dw_name]['state']
            ctx.check(st2['currentIteration'] == k and
                      st2['currentCondition'] == 'stage%d.%d#%s/next:output' % (stage_of[cond_c], k, cond_c),
                      'loop state does not depend on the enumeration order of looped components', (shape, k, st2))
        ref = graph.DataReference('stage1.work:ref', OS)
        ctx.check(ref.resolve(g) == '/wd/stage1/%d#work' % k, 'a reference from outside the loop resolves to the latest instance',
                  (shape, k, ref.resolve(g)))
        lref = graph.DataReference('stage1.work:loopref', OS)
        ctx.check(lref.resolve(g) == ' '.join('/wd/stage1/%d#work' % i for i in range(k + 1)),
                  'aggregate loop references list all instances in increasing iteration order', (shape, k, lref.resolve(g)))
        rp = set(g.graph.predecessors('stage%d.report' % OS))
        ctx.check({'stage1.%d#work' % i for i in range(k + 1)} <= rp, 'the outside consumer depends on every instance', (shape, k))
        if k >= 10:
            ctx.witness('ten_or_more_iterations')
        if k >= 1 and shape['loop_binding']:
            ctx.witness('loop_carried_input_checked')
    return (shape, K)


def body_two_loops(ctx):
    """Two DoWhile documents advancing independently (a symbolic schedule of which loop iterates next): the state,
    instances and placeholders of one loop must not depend on how far the other one is."""
    same_names = ctx.flag('same_document_imported_twice')

    def dw(tag):
        tag = '' if same_names else tag
        return {'type': 'DoWhile', 'inputBindings': {'number': {'type': 'output'}}, 'condition': 'stop%s/next:output' % tag,
                'loopBindings': {'number': 'stop%s:output' % tag},
                'components': [{'name': 'work' + tag, 'command': {'executable': 'echo', 'arguments': 'number:output'}, 'references': ['number:output']},
                               {'name': 'stop' + tag, 'command': {'executable': 'echo', 'arguments': 'work%s:output' % tag},
                                'references': ['work%s:output' % tag]}]}
    sfx = {'A': '' if same_names else 'A', 'B': '' if same_names else 'B'}
    main = {'components': [
        {'stage': 0, 'name': 'source', 'command': {'executable': 'echo', 'arguments': '0'}},
        {'stage': 1, '$import': 'dowhileA.yaml', 'name': 'loopA', 'bindings': {'number': 'stage0.source:output'}},
        {'stage': 2, '$import': 'dowhileB.yaml', 'name': 'loopB', 'bindings': {'number': 'stage0.source:output'}},
        {'stage': 3, 'name': 'report', 'command': {'executable': 'echo', 'arguments': 'stage1.work%s:ref stage2.work%s:ref' % (sfx['A'], sfx['B'])},
         'references': ['stage1.work%s:ref' % sfx['A'], 'stage2.work%s:ref' % sfx['B']]}]}
    d = tempfile.mkdtemp(prefix='verif-c05-')
    try:
        os.makedirs(os.path.join(d, 'conf'))
        for tag in 'AB':
            with open(os.path.join(d, 'conf', 'dowhile%s.yaml' % tag), 'w') as f:
                yaml.safe_dump(dw(tag), f)
        with open(os.path.join(d, 'conf', 'flowir_package.yaml'), 'w') as f:
            yaml.safe_dump(main, f)
        pkg = storage.ExperimentPackage.packageFromLocation(d)
        g = graph.WorkflowGraph.graphFromPackage(pkg, primitive=False, createInstanceConfiguration=False)
    finally:
        shutil.rmtree(d, ignore_errors=True)
    g.rootStorage = _Storage()
    steps = ctx.concretize(ctx.int('steps', 1, TWO_LOOP_STEPS))
    k = {'A': 0, 'B': 0}
    stage = {'A': 1, 'B': 2}
    schedule = []
    for step in range(steps + 1):
        if step > 0:
            tag = ctx.choice('advance%d' % step, ['A', 'B'])
            schedule.append(tag)
            name = 'stage%d.loop%s' % (stage[tag], tag)
            entry = g._documents[FlowIR.LabelDoWhile][name]
            # exactly what Controller._instantiate_next_dowhile_iteration does: next = currentIteration + 1
            nxt = entry['state']['currentIteration'] + 1
            try:
                new = g.instantiate_dowhile_next_iteration(entry['document'], nxt, False)
                err = None
            except Exception as e:
                new, err = [], e
            ctx.check(err is None, 'the next iteration of one loop can be instantiated whatever the other loop has done', (schedule, repr(err)[:300]))
            k[tag] += 1
            ctx.check(sorted(new) == sorted('stage%d.%d#%s%s' % (stage[tag], k[tag], c, sfx[tag]) for c in ('work', 'stop')),
                      'iteration k adds exactly one new instance of every looped component', (schedule, new))
        want = {'stage0.source', 'stage3.report'}
        for tag in 'AB':
            want |= {'stage%d.%d#%s%s' % (stage[tag], i, c, sfx[tag]) for c in ('work', 'stop') for i in range(k[tag] + 1)}
        nodes = set(g.graph.nodes)
        ctx.check(nodes == want, 'the workflow contains exactly instances 0..k of every looped component', (schedule, sorted(nodes ^ want)))
        for tag in 'AB':
            st = g._documents[FlowIR.LabelDoWhile]['stage%d.loop%s' % (stage[tag], tag)]['state']
            ctx.check(st['currentIteration'] == k[tag], 'current iteration is k', (schedule, tag, dict(k), st))
            ctx.check(st['currentCondition'] == 'stage%d.%d#stop%s/next:output' % (stage[tag], k[tag], sfx[tag]),
                      'current condition is the one produced by iteration k', (schedule, tag, dict(k), st))
            ph = g._placeholders['stage%d.work%s' % (stage[tag], sfx[tag])]
            ctx.check(ph['latest'] == 'stage%d.%d#work%s' % (stage[tag], k[tag], sfx[tag]), 'latest instance is the numerically highest iteration',
                      (schedule, tag, ph['latest']))
            for i in range(1, k[tag] + 1):
                wp = set(g.graph.predecessors('stage%d.%d#work%s' % (stage[tag], i, sfx[tag])))
                ctx.check(wp == {'stage%d.%d#stop%s' % (stage[tag], i - 1, sfx[tag])},
                          'instance i takes its loop-carried input from instance i-1, other inputs from the original bindings', (schedule, tag, i, sorted(wp)))
        if k['A'] != k['B'] and min(k.values()) >= 1:
            ctx.witness('two_loops_at_different_iterations')
    return (tuple(schedule), same_names)


TWO_LOOP_STEPS = 5


def factory(param):
    if param.get('name') == 'two-loops':
        return body_two_loops
    return body


def signature(param, assignment, message, detail):
    k = None
    try:
        k = detail[1]
    except Exception:
        pass
    return 'graph|%s|k>=10=%s' % (message, bool(k is not None and isinstance(k, int) and k >= 10))


def main(tier, seed, only=None):
    rep = Report('C05', tier, seed)
    rep.functions = ['graph.WorkflowGraph.instantiate_dowhile_next_iteration', 'flowir.instantiate_dowhile', 'rewrite_components',
                     'rewrite_all_references', 'rewrite_reference', 'rewrite_loopbindings_for_stage_offset', 'expand_bindings',
                     'WorkflowGraph._discover_dowhile_placeholders', 'map_placeholders_to_looped_instances_of_components',
                     'compute_dowhile_state', 'update_dowhile_states', 'DataReference.resolve (looped_reference_to_paths)',
                     'flowir.map_placeholder_id_to_iteration (sort key)', 'FlowIRConcrete.add_component/replicate',
                     'WorkflowGraph._createCompleteGraph', 'flowir.package_document_load']
    rep.bounds = {'E3': 'iteration numbers 0 <= i < j <= 999 as decimal strings, component names add / a.b / x-1; 4 sort sites',
                  'E1': 'iterations k = 0..K checked after every step, K in 11..12 (quick) / 1..12 (thorough), document shapes: loop binding yes/no, loop over 1 or 2 stages, '
                        'extra independent looped component (named with the condition producer as prefix), condition produced by either component, binding used twice in the arguments, a component using both the loop-carried binding and its current producer'}
    rep.bounds['two loops'] = 'two DoWhile documents in different stages advanced by every schedule of up to 5 (thorough 8) steps, each step instantiating currentIteration + 1 of the chosen loop'
    rep.outside = ['controller-driven instantiation under concurrency', 'nested loops', 'two loops sharing component or condition names', 'replication inside loops beyond replicate: 1',
                   'more than 12 iterations on the real graph (ordering for up to 999 is covered by the lemmas)']
    rep.assumptions = ['rootStorage replaced by a stub mapping (stage, name) to a path', 'package written to a scratch directory '
                       '(removed after loading); createInstanceConfiguration=False']
    rep.explanation = ('E3: sort keys lifted from the AST of the real functions, order-preservation over symbolic iteration numbers decided '
                       'by z3 (strings+LIA) and cross-checked by cvc5; E1: bounded symbolic execution (symx/z3) of the real graph over symbolic '
                       'document shapes and iteration count')
    rep.required_witnesses = ['ten_or_more_iterations', 'loop_carried_input_checked', 'binding_and_current_producer_checked',
                              'two_loops_at_different_iterations']
    if not only or 'lemmas' in only:
        ordering_lemmas(rep, tier)
    if not only or 'graph' in only:
        global KMIN, TWO_LOOP_STEPS
        KMIN = 11 if tier == 'quick' else 1
        TWO_LOOP_STEPS = 5 if tier == 'quick' else 8
        s = explore_parallel('histories', factory, [{'name': 'dowhile'}, {'name': 'two-loops'}], signature=signature, seed=seed, chunk=4,
                             validate=False)
        rep.add(s)
    else:
        rep.required_witnesses = []
    return rep.finish()


def replay(v):
    if 'assignment' not in v:
        print('ordering lemma counterexample: %s' % v)
        return 1
    st, msg, detail = replay_assignment(factory, v['param'], v['assignment'])
    print('replay: %s %s %s' % (st, msg, detail))
    return 1 if st == 'violation' else 0
