import argparse
import importlib
import json
import logging
import os
import sys


def main():
    ap = argparse.ArgumentParser()
    ap.add_argument('prop')
    ap.add_argument('--tier', default=os.environ.get('VERIF_TIER', 'quick'), choices=['quick', 'thorough'])
    ap.add_argument('--replay', default=None)
    ap.add_argument('--only', default=None, help='run only the named part(s) of the harness (dev)')
    a = ap.parse_args()
    seed = int(os.environ.get('VERIF_SEED', '0') or 0)
    logging.disable(logging.CRITICAL)
    prop = a.prop.upper()
    mods = [m for m in os.listdir(os.path.dirname(__file__)) if m.lower().startswith(prop.lower() + '_')
            and m.endswith('.py')]
    if not mods:
        print('no harness for %s' % prop)
        sys.exit(3)
    mod = importlib.import_module('harness.' + mods[0][:-3])
    if a.replay:
        with open(a.replay) as f:
            payload = json.load(f)
        sys.exit(mod.replay(payload['violation']))
    if a.tier == 'thorough':
        # every exploration of the thorough tier gets a wall-clock cap (35 min); what is left is reported as unexplored
        os.environ.setdefault('VERIF_DEADLINE_S', '2100')
    only = a.only.split(',') if a.only else None
    sys.exit(mod.main(a.tier, seed, only))


if __name__ == '__main__':
    main()
