"""PEP316 contracts for C09 (checked by CrossHair; every function is also callable natively).

Conventions: one symbolic short string per condition, the other parts fixed to representative
concrete values; printable ASCII; the return value is the verdict (post: _).
"""
import os
import networkx  # noqa  (warm-up: lazily compiled code must be imported before a symbolic run)

from experiment.model.frontends.flowir import FlowIR, Manifest
import experiment.model.graph as graph

import experiment.model.errors as _errors
import posixpath as _posixpath


def _py_normpath(path):
    """CPython's pure-Python posixpath.normpath (the fallback Lib/posixpath.py uses when posix._path_normpath is missing).
    The C implementation rejects CrossHair's symbolic strings ("proxy intolerance"), which made every path through
    Manifest.validate unsupported; sweep() checks this stand-in against the C function on every swept string."""
    sep, empty, dot, dotdot = '/', '', '.', '..'
    if path == empty:
        return dot
    initial_slashes = path.startswith(sep)
    if initial_slashes and path.startswith(sep * 2) and not path.startswith(sep * 3):
        initial_slashes = 2
    new_comps = []
    for comp in path.split(sep):
        if comp in (empty, dot):
            continue
        if comp != dotdot or (not initial_slashes and not new_comps) or (new_comps and new_comps[-1] == dotdot):
            new_comps.append(comp)
        elif new_comps:
            new_comps.pop()
    path = sep.join(new_comps)
    if initial_slashes:
        path = sep * initial_slashes + path
    return path or dot


_C_NORMPATH = getattr(_posixpath.normpath, '_verif_original', _posixpath.normpath)
_py_normpath._verif_original = _C_NORMPATH
_posixpath.normpath = _py_normpath

# a manifest that is rejected by validation (absolute key, key escaping the instance) never reaches classification
ALLOWED_EXCEPTIONS = (_errors.FlowIRManifestException,)
METHODS = list(FlowIR.data_reference_methods)
SPECIAL = list(FlowIR.SpecialFolders)


def _printable(s: str) -> bool:
    return all('!' <= c <= '~' for c in s)


def name_ok(s: str) -> bool:
    """Producer names the reference grammar can spell: no separators of the grammar itself."""
    return 1 <= len(s) and _printable(s) and not any(c in s for c in ':/%') and not s.startswith('.') \
        and not s.startswith('stage') and s not in SPECIAL


def file_ok(s: str) -> bool:
    return 1 <= len(s) and _printable(s) and ':' not in s and '%' not in s and not s.startswith('/') \
        and not s.endswith('/') and '//' not in s


# ---- print o parse / parse o print ---------------------------------------------------------------
def _c09_print_then_parse_name(s: str) -> bool:
    """
    pre: 1 <= len(s) <= 3 and 33 <= ord(s[0]) <= 126 and 33 <= ord(s[-1]) <= 126 and (len(s) < 3 or 33 <= ord(s[1]) <= 126) and ':' not in s and '/' not in s and '%' not in s and s[0] != '.' and not s.startswith('sta') and s != 'bin'
    post: _
    """
    ok = True
    for stage in (0, 1, 10):
        for fn in (None, 'f', 'd/f.txt'):
            for m in ('ref', 'copy', 'output', 'loopref'):
                text = FlowIR.compile_reference(s, fn, m, stage)
                ok = ok and FlowIR.ParseDataReferenceFull(text) == (stage, s, fn, m)
                rel = FlowIR.compile_reference(s, fn, m, None)
                ok = ok and FlowIR.ParseDataReferenceFull(rel, stage) == (stage, s, fn, m)
    return ok


def _c09_print_then_parse_name_pre(s):
    return len(s) <= 3 and name_ok(s)


def _c09_print_then_parse_file(f: str) -> bool:
    """
    pre: 1 <= len(f) <= 3 and 33 <= ord(f[0]) <= 126 and 33 <= ord(f[-1]) <= 126 and (len(f) < 3 or 33 <= ord(f[1]) <= 126) and ':' not in f and '%' not in f and f[0] != '/' and f[-1] != '/' and '//' not in f
    post: _
    """
    ok = True
    for name in ('A', 'a.b', '1#x'):
        text = FlowIR.compile_reference(name, f, 'ref', 2)
        ok = ok and FlowIR.ParseDataReferenceFull(text) == (2, name, f, 'ref')
    return ok


def _c09_print_then_parse_file_pre(f):
    return len(f) <= 3 and file_ok(f)


def _c09_parse_then_print(s: str) -> bool:
    """
    pre: 1 <= len(s) <= 3 and 33 <= ord(s[0]) <= 126 and 33 <= ord(s[-1]) <= 126 and (len(s) < 3 or 33 <= ord(s[1]) <= 126) and ':' not in s and '/' not in s and '%' not in s and s[0] != '.' and not s.startswith('sta') and s != 'bin'
    post: _
    """
    ok = True
    for text in ('stage3.%s/x/y:copy' % s, 'stage0.%s:ref' % s, '%s/x:link' % s, '%s:output' % s):
        st, prod, fn, m = FlowIR.ParseDataReferenceFull(text)
        ok = ok and FlowIR.compile_reference(prod, fn, m, st) == text
    return ok


_c09_parse_then_print_pre = _c09_print_then_parse_name_pre


def _c09_relative_equals_absolute(s: str) -> bool:
    """
    pre: 1 <= len(s) <= 3 and 33 <= ord(s[0]) <= 126 and 33 <= ord(s[-1]) <= 126 and (len(s) < 3 or 33 <= ord(s[1]) <= 126) and ':' not in s and '/' not in s and '%' not in s and s[0] != '.' and not s.startswith('sta') and s != 'bin'
    post: _
    """
    ok = True
    for tail in (':ref', '/f:copy', '/d/f:output'):
        a = FlowIR.ParseDataReferenceFull('stage1.%s%s' % (s, tail))
        r = FlowIR.ParseDataReferenceFull('%s%s' % (s, tail), 1)
        ok = ok and a == r
        da = graph.DataReference('stage1.%s%s' % (s, tail))
        dr = graph.DataReference('%s%s' % (s, tail), 1)
        ok = ok and da.absoluteReference == dr.absoluteReference and da.relativeReference == dr.relativeReference
        ok = ok and (da.stageIndex, da.producerName, da.fileRef, da.method) == a
        ok = ok and graph.DataReference(dr.absoluteReference).absoluteReference == dr.absoluteReference
    return ok


_c09_relative_equals_absolute_pre = _c09_print_then_parse_name_pre


def _c09_relative_equals_absolute_stage_like(t: str) -> bool:
    """
    pre: 1 <= len(t) <= 3 and 33 <= ord(t[0]) <= 126 and 33 <= ord(t[-1]) <= 126 and (len(t) < 3 or 33 <= ord(t[1]) <= 126) and ':' not in t and '/' not in t and '%' not in t and t[0] not in '0123456789.'
    post: _
    """
    # component names that merely begin like a stage prefix, e.g. 'stage1x.b'
    s = 'stage1' + t
    a = FlowIR.ParseDataReferenceFull('stage0.%s:ref' % s)
    r = FlowIR.ParseDataReferenceFull('%s:ref' % s, 0)
    return a == r == (0, s, None, 'ref')


def _c09_relative_equals_absolute_stage_like_pre(t):
    return len(t) <= 3 and _printable(t) and not any(c in t for c in ':/%') and not t[:1].isdigit() and t[:1] != '.'


def _c09_expand_idempotent(s: str) -> bool:
    """
    pre: 1 <= len(s) <= 3 and 33 <= ord(s[0]) <= 126 and 33 <= ord(s[-1]) <= 126 and (len(s) < 3 or 33 <= ord(s[1]) <= 126) and ':' not in s and '/' not in s and '%' not in s and s[0] != '.' and not s.startswith('sta') and s != 'bin'
    post: _
    """
    ok = True
    known = {0: [s, 'other'], 1: ['x']}
    top = ['myfolder', 'input', 'data', 'bin', 'conf']
    for text in ('%s:ref' % s, '%s/f:copy' % s, 'stage0.%s/f:copy' % s, 'myfolder/a:ref', 'data/x.txt:copy'):
        once = FlowIR.expand_potential_component_reference(text, 0, known, top)
        twice = FlowIR.expand_potential_component_reference(once, 0, known, top)
        ok = ok and once == twice
        ok = ok and FlowIR.ParseDataReferenceFull(once, 0, special_folders=top)[1:] == \
            FlowIR.ParseDataReferenceFull(text, 0, special_folders=top)[1:]
    ok = ok and FlowIR.expand_potential_component_reference('%s/f:copy' % s, 0, known, top) == 'stage0.%s/f:copy' % s
    return ok


_c09_expand_idempotent_pre = _c09_print_then_parse_name_pre


# ---- classification ------------------------------------------------------------------------------
def _c09_manifest_top_level(k: str) -> bool:
    """
    pre: 1 <= len(k) <= 3 and 33 <= ord(k[0]) <= 126 and 33 <= ord(k[-1]) <= 126 and (len(k) < 3 or 33 <= ord(k[1]) <= 126) and k[0] != '/' and ':' not in k
    raises: _errors.FlowIRManifestException
    post: _
    """
    m = Manifest({k: 'src:copy'})
    return m.top_level_folders == [k.split('/')[0]]


def _c09_manifest_top_level_pre(k):
    return 1 <= len(k) <= 4 and _printable(k) and not k.startswith('/') and ':' not in k


def _c09_manifest_nested_key(k: str) -> bool:
    """
    pre: len(k) == 5 and k[1] == '/' and k[3] == '/' and 48 <= ord(k[0]) <= 122 and 48 <= ord(k[2]) <= 122 and 48 <= ord(k[4]) <= 122 and ':' not in k
    raises: _errors.FlowIRManifestException
    post: _
    """
    # a key with three one-character (symbolic) segments: the top-level folder is the first one, and a reference through it is direct
    m = Manifest({k: 'src:copy'})
    top = m.top_level_folders
    st, prod, fn, method = FlowIR.ParseDataReferenceFull(k[0] + '/x:ref', 0, special_folders=top)
    return top == [k[0]] and st is None


def _c09_manifest_nested_key_pre(k):
    return len(k) == 5 and k[1] == '/' and k[3] == '/' and all('0' <= k[i] <= 'z' for i in (0, 2, 4)) and ':' not in k


def _c09_manifest_folder_is_not_component(k: str) -> bool:
    """
    pre: 1 <= len(k) <= 3 and 33 <= ord(k[0]) <= 126 and 33 <= ord(k[-1]) <= 126 and (len(k) < 3 or 33 <= ord(k[1]) <= 126) and k[0] != '/' and ':' not in k and '%' not in k and '.' not in k
    raises: _errors.FlowIRManifestException
    post: _
    """
    top = Manifest({k: 'src:copy'}).top_level_folders
    seg = k.split('/')[0]
    st, prod, fn, m = FlowIR.ParseDataReferenceFull('%s/some/file:ref' % seg, 0, special_folders=top)
    expanded = FlowIR.expand_component_references(['%s/some/file:ref' % seg], 0, {0: ['KnownComponent']}, [], top)
    return st is None and expanded == ['%s/some/file:ref' % seg]


def _c09_manifest_folder_is_not_component_pre(k):
    return 1 <= len(k) <= 4 and _printable(k) and not k.startswith('/') and not any(c in k for c in ':%.') \
        and k.split('/')[0] != ''


def _c09_reserved_first_segment_is_direct(s: str) -> bool:
    """
    pre: 1 <= len(s) <= 3 and 33 <= ord(s[0]) <= 126 and 33 <= ord(s[-1]) <= 126 and (len(s) < 3 or 33 <= ord(s[1]) <= 126) and ':' not in s and '%' not in s and s[0] != '/' and s[-1] != '/' and '//' not in s
    post: _
    """
    ok = True
    for folder in SPECIAL + ['appdep', 'top']:
        st, prod, fn, m = FlowIR.ParseDataReferenceFull('%s/%s:ref' % (folder, s), 4, ['/some/where/appdep.application'],
                                                        ['top'])
        ok = ok and st is None
        ok = ok and not FlowIR.is_datareference_to_component('%s/%s:ref' % (folder, s), ['top', 'appdep'])
    st, prod, fn, m = FlowIR.ParseDataReferenceFull('/abs/%s:copy' % s, 4)
    ok = ok and st is None and not FlowIR.is_datareference_to_component('/abs/%s:copy' % s)
    st, prod, fn, m = FlowIR.ParseDataReferenceFull('%%(var)s/%s:copy' % s, 4)
    ok = ok and st is None
    return ok


def _c09_reserved_first_segment_is_direct_pre(s):
    return len(s) <= 3 and file_ok(s)


def _c09_known_component_is_component(s: str) -> bool:
    """
    pre: 1 <= len(s) <= 3 and 33 <= ord(s[0]) <= 126 and 33 <= ord(s[-1]) <= 126 and (len(s) < 3 or 33 <= ord(s[1]) <= 126) and ':' not in s and '/' not in s and '%' not in s and s[0] != '.' and not s.startswith('sta') and s != 'bin'
    post: _
    """
    ok = True
    for text in ('%s:ref' % s, '%s/f:copy' % s, 'stage2.%s:ref' % s):
        st, prod, fn, m = FlowIR.ParseDataReferenceFull(text, 2, [], ['top'])
        ok = ok and st == 2 and prod == s
        ok = ok and FlowIR.is_datareference_to_component(text, ['top'])
    return ok


_c09_known_component_is_component_pre = _c09_print_then_parse_name_pre


def _c09_uid_injective(a: str, b: str) -> bool:
    """
    pre: 1 <= len(a) <= 2 and 1 <= len(b) <= 2 and 33 <= ord(a[0]) <= 126 and 33 <= ord(a[-1]) <= 126 and 33 <= ord(b[0]) <= 126 and 33 <= ord(b[-1]) <= 126 and ':' not in a and ':' not in b and '/' not in a and '/' not in b and '.' not in a and '.' not in b and a != b
    post: _
    """
    ua = graph.ComponentIdentifier('stage0.' + a).to_uid('file://gw/inst')
    ub = graph.ComponentIdentifier('stage0.' + b).to_uid('file://gw/inst')
    return ua != ub and ua.count('&') == 1


def _c09_uid_injective_pre(a, b):
    return len(a) <= 3 and len(b) <= 3 and name_ok(a) and name_ok(b) and a != b


# ---- native sweep domain ---------------------------------------------------------------------------
ALPHA = ['a', '1', '.', '-', '#', '/', '+', '&']


def _strings(maxlen, alpha=ALPHA):
    out = ['']
    frontier = ['']
    for _ in range(maxlen):
        frontier = [p + c for p in frontier for c in alpha]
        out += frontier
    return out


def sweep(mod):
    s3 = [(s,) for s in _strings(3)]
    s4 = [(s,) for s in _strings(4, ['a', 'b', '/', '.'])]
    # the normpath stand-in is validated against the C implementation on every swept string (and longer mixes of / . ..)
    for (x,) in s3 + s4 + [(y,) for y in _strings(7, ['a', '/', '.'])]:
        if _py_normpath(x) != _C_NORMPATH(x):
            raise AssertionError('normpath stand-in differs from posixpath.normpath on %r' % x)
    yield '_c09_print_then_parse_name', s3
    yield '_c09_print_then_parse_file', s3
    yield '_c09_parse_then_print', s3
    yield '_c09_relative_equals_absolute', s3
    yield '_c09_relative_equals_absolute_stage_like', s3
    yield '_c09_expand_idempotent', s3
    yield '_c09_manifest_top_level', s4
    yield '_c09_manifest_folder_is_not_component', s4
    yield '_c09_manifest_nested_key', [('%s/%s/%s' % (a, b, c),) for a in 'ab0' for b in 'ab0' for c in 'ab0']
    yield '_c09_reserved_first_segment_is_direct', s3
    yield '_c09_known_component_is_component', s3
    yield '_c09_confirm_relative_roundtrip', s3
    yield '_c09_confirm_split_producer_file', s3
    yield '_c09_uid_injective', [(a, b) for a in _strings(2, ['a', '%', '&', '2']) for b in _strings(2, ['a', '%', '&', '5'])]


# ---- small regex-free conditions that CrossHair can exhaust ("Confirmed over all paths") -------------
def _c09_confirm_relative_roundtrip(s: str) -> bool:
    """
    pre: 1 <= len(s) <= 2 and ':' not in s and '/' not in s and '%' not in s and not s.startswith('.') and not s.startswith('stage')
    post: _
    """
    text = FlowIR.compile_reference(s, 'f', 'ref', None)
    return FlowIR.ParseDataReferenceFull(text, 1) == (1, s, 'f', 'ref')


def _c09_confirm_relative_roundtrip_pre(s):
    return 1 <= len(s) <= 2 and not any(c in s for c in ':/%') and not s.startswith('.') and not s.startswith('stage')


def _c09_confirm_split_producer_file(s: str) -> bool:
    """
    pre: 1 <= len(s) <= 2 and ':' not in s and '/' not in s and '%' not in s and '.' not in s
    post: _
    """
    return FlowIR.ParseDataReference(s + '/f/g:ref') == (s, 'f/g', 'ref') or s in SPECIAL


def _c09_confirm_split_producer_file_pre(s):
    return 1 <= len(s) <= 2 and not any(c in s for c in ':/%.')
