"""PEP316 contracts for C10: the real ComponentSpecification.resolveArguments on a harness subclass
that overrides only the data-providing properties; real DataReference spellings; resolve() stubbed."""
import types
import networkx  # noqa warm-up

import experiment.model.graph as graph
from experiment.model.graph import DataReference, ComponentIdentifier, ComponentSpecification

ALLOWED_EXCEPTIONS = ()


class HRef(DataReference):
    def __init__(self, text, stage, value):
        DataReference.__init__(self, text, stage)
        self.value = value

    def resolve(self, workflowGraph=None, **kw):
        return self.value


class HSpec(ComponentSpecification):
    def __init__(self, arguments, refs, stage=0):
        self._args = arguments
        self._refs = refs
        self._identification = ComponentIdentifier('stage%d.me' % stage)
        g = types.SimpleNamespace(configuration=types.SimpleNamespace(is_raw=True), isPrimitive=True)
        self.workflowGraphRef = lambda: g

    commandDetails = property(lambda self: {'arguments': self._args})
    dataReferences = property(lambda self: list(self._refs))
    workflowAttributes = property(lambda self: {'isRepeat': False})
    customAttributes = property(lambda self: {})
    configuration = property(lambda self: {})


def resolve(arguments, refs):
    unresolved, unused = [], []
    out = HSpec(arguments, refs).resolveArguments(unresolved=unresolved, unused=unused)
    return out, len(unresolved), len(unused)


def _tok(c: str) -> bool:
    """A character of the alphabet that the loader itself accepts in a reference token (FlowIR.discover_reference_strings:
    [.a-zA-Z0-9_/-], minus the separators '.' and '/'): a producer whose name holds any other character cannot be referenced in
    an argument string at all (the workflow is rejected at load: "Unknown reference to A:ref" for a producer called !A)."""
    o = ord(c)
    return 48 <= o <= 57 or 65 <= o <= 90 or 97 <= o <= 122 or o == 45 or o == 95


def name_ok(s: str) -> bool:
    return 1 <= len(s) and all(_tok(c) for c in s) \
        and not s.startswith('stage') and s not in ('input', 'data', 'bin', 'conf')


LIGHT = [False]      # set while a contract runs on CrossHair's symbolic string: one declaration order, one argument shape
                      # (a path through resolveArguments costs ~10 s there); native calls (sweep, replay) do everything


def both_orders(arguments, r1, r2, expected):
    if LIGHT[0]:
        # the order that exposes an overlap: the shorter / relative spelling is substituted first
        return resolve(arguments, [r2(), r1()])[0] == expected
    a = resolve(arguments, [r1(), r2()])
    b = resolve(arguments, [r2(), r1()])
    return a[0] == expected and b[0] == expected


# representative concrete names (DESIGN.md 1.2): 'A', 'AB', 'A1'
def _pair(s, rep, spelling_rep, spelling_s, method='ref'):
    r1 = lambda: HRef('stage0.%s:%s' % (rep, method), 0, '/P-rep')
    r2 = lambda: HRef('stage0.%s:%s' % (s, method), 0, '/P-sym')
    t1 = ('stage0.%s:%s' if spelling_rep == 'abs' else '%s:%s') % (rep, method)
    t2 = ('stage0.%s:%s' if spelling_s == 'abs' else '%s:%s') % (s, method)
    LIGHT[0] = type(s) is not str
    ok = both_orders('%s %s' % (t1, t2), r1, r2, '/P-rep /P-sym')
    if not LIGHT[0]:
        ok = ok and both_orders('-x %s --y=%s tail' % (t2, t1), r1, r2, '-x /P-sym --y=/P-rep tail')
    return ok


def _c10_relative_relative_A(s: str) -> bool:
    """
    pre: 1 <= len(s) <= 2 and _tok(s[0]) and _tok(s[-1]) and ':' not in s and '/' not in s and '%' not in s and '.' not in s and '=' not in s and s != 'A'
    post: _
    """
    return _pair(s, 'A', 'rel', 'rel')


def _c10_relative_relative_A_pre(s):
    return len(s) <= 2 and name_ok(s) and s != 'A'


def _c10_relative_relative_AB(s: str) -> bool:
    """
    pre: 1 <= len(s) <= 2 and _tok(s[0]) and _tok(s[-1]) and ':' not in s and '/' not in s and '%' not in s and '.' not in s and '=' not in s and s != 'AB'
    post: _
    """
    return _pair(s, 'AB', 'rel', 'rel')


def _c10_relative_relative_AB_pre(s):
    return len(s) <= 2 and name_ok(s) and s != 'AB'


def _c10_absolute_relative_A1(s: str) -> bool:
    """
    pre: 1 <= len(s) <= 2 and _tok(s[0]) and _tok(s[-1]) and ':' not in s and '/' not in s and '%' not in s and '.' not in s and '=' not in s and s != 'A1'
    post: _
    """
    if type(s) is not str:
        return _pair(s, 'A1', 'rel', 'abs')
    return _pair(s, 'A1', 'abs', 'rel') and _pair(s, 'A1', 'rel', 'abs') and _pair(s, 'A1', 'abs', 'abs')


def _c10_absolute_relative_A1_pre(s):
    return len(s) <= 2 and name_ok(s) and s != 'A1'


def _c10_absolute_absolute(s: str) -> bool:
    """
    pre: 1 <= len(s) <= 2 and _tok(s[0]) and _tok(s[-1]) and ':' not in s and '/' not in s and '%' not in s and '.' not in s and '=' not in s and s != 'A1' and s != 'A'
    post: _
    """
    # every reference spelled absolutely: exact whatever the names share (the open finding needs a RELATIVE spelling)
    if type(s) is not str:
        return _pair(s, 'A1', 'abs', 'abs')
    return _pair(s, 'A1', 'abs', 'abs') and _pair(s, 'A', 'abs', 'abs')


def _c10_absolute_absolute_pre(s):
    return len(s) <= 2 and name_ok(s) and s not in ('A1', 'A')


def _c10_output_contents_verbatim(v: str) -> bool:
    """
    pre: len(v) <= 3 and (len(v) < 1 or 32 <= ord(v[0]) <= 126) and (len(v) < 2 or 32 <= ord(v[1]) <= 126) and (len(v) < 3 or 32 <= ord(v[2]) <= 126)
    post: _
    """
    # the contents of the referenced file are copied verbatim, whatever characters they hold
    out, n_unresolved, n_unused = resolve('-i A/o.txt:output -j stage0.B/o.txt:output', [HRef('stage0.A/o.txt:output', 0, v),
                                                                                          HRef('stage0.B/o.txt:output', 0, 'b')])
    return out == '-i %s -j b' % v and n_unused == 0


def _c10_output_contents_verbatim_pre(v):
    return len(v) <= 3 and all(' ' <= c <= '~' for c in v)


def _c10_output_contents_A(s: str) -> bool:
    """
    pre: 1 <= len(s) <= 2 and _tok(s[0]) and _tok(s[-1]) and ':' not in s and '/' not in s and '%' not in s and '.' not in s and '=' not in s and s != 'A'
    post: _
    """
    r1 = lambda: HRef('stage0.A/o.txt:output', 0, 'contents-rep')
    r2 = lambda: HRef('stage0.%s/o.txt:output' % s, 0, 'contents-sym')
    LIGHT[0] = type(s) is not str
    return both_orders('A/o.txt:output %s/o.txt:output' % s, r1, r2, 'contents-rep contents-sym')


_c10_output_contents_A_pre = _c10_relative_relative_A_pre


def _c10_same_name_two_stages(s: str) -> bool:
    """
    pre: 1 <= len(s) <= 2 and _tok(s[0]) and _tok(s[-1]) and ':' not in s and '/' not in s and '%' not in s and '.' not in s and '=' not in s
    post: _
    """
    r0 = lambda: HRef('stage0.%s:ref' % s, 0, '/P-stage0')
    r1 = lambda: HRef('stage1.%s:ref' % s, 0, '/P-stage1')
    LIGHT[0] = type(s) is not str
    return both_orders('stage1.%s:ref %s:ref' % (s, s), r0, r1, '/P-stage1 /P-stage0')


def _c10_same_name_two_stages_pre(s):
    return len(s) <= 2 and name_ok(s)


def _c10_literal_text_untouched(s: str) -> bool:
    """
    pre: 1 <= len(s) <= 3 and 33 <= ord(s[0]) <= 126 and 33 <= ord(s[-1]) <= 126 and (len(s) < 3 or 33 <= ord(s[1]) <= 126) and ':' not in s
    post: _
    """
    r1 = lambda: HRef('stage0.A:ref', 0, '/P-rep')
    if type(s) is not str:
        out, n_unresolved, n_unused = resolve('%s A:ref' % s, [r1()])
        return out == '%s /P-rep' % s and n_unused == 0
    out, n_unresolved, n_unused = resolve('%s A:ref %s' % (s, s), [r1()])
    return out == '%s /P-rep %s' % (s, s) and n_unused == 0


def _c10_literal_text_untouched_pre(s):
    return len(s) <= 3 and all('!' <= c <= '~' for c in s) and ':' not in s


def _c10_unused_and_undeclared_reported(s: str) -> bool:
    """
    pre: 1 <= len(s) <= 2 and _tok(s[0]) and _tok(s[-1]) and ':' not in s and '/' not in s and '%' not in s and '.' not in s and '=' not in s and s != 'A'
    post: _
    """
    out, n_unresolved, n_unused = resolve('A:ref', [HRef('stage0.A:ref', 0, '/P'), HRef('stage0.%s:ref' % s, 0, '/Q')])
    ok = out == '/P' and n_unused == 1
    out, n_unresolved, n_unused = resolve('A:ref %s:ref' % s, [HRef('stage0.A:ref', 0, '/P')])
    return ok and n_unresolved == 1 and out == '/P %s:ref' % s


_c10_unused_and_undeclared_reported_pre = _c10_relative_relative_A_pre

ALPHA = ['A', 'B', '1', '0', '-', '_']


def _strings(maxlen, alpha=ALPHA):
    out, frontier = [''], ['']
    for _ in range(maxlen):
        frontier = [p + c for p in frontier for c in alpha]
        out += frontier
    return out


def sweep(mod):
    s2 = [(s,) for s in _strings(2)]
    s3 = [(s,) for s in _strings(3, ['A', ' ', '=', 'r', '/'])]
    for n in ('_c10_relative_relative_A', '_c10_relative_relative_AB', '_c10_absolute_relative_A1',
              '_c10_output_contents_A', '_c10_same_name_two_stages', '_c10_unused_and_undeclared_reported'):
        yield n, s2
    yield '_c10_literal_text_untouched', s3
    yield '_c10_absolute_absolute', s2
    yield '_c10_output_contents_verbatim', [(x,) for x in _strings(3, ['a', chr(92), '1', 'g', '&', '$'])]
