"""PEP316 contracts for C03 (textual layer): FlowIR.compile_component_replica / compile_component_aggregate
with one symbolic producer name against concrete representatives; oracle compares *parsed* references."""
import networkx  # noqa warm-up

from experiment.model.frontends.flowir import FlowIR

ALLOWED_EXCEPTIONS = ()


def P(ref, stage=0):
    return FlowIR.ParseDataReferenceFull(ref, stage)


def _tok(c: str) -> bool:
    """A character of the alphabet that the loader itself accepts in a reference token (FlowIR.discover_reference_strings:
    [.a-zA-Z0-9_/-], minus the separators '.' and '/'): a producer whose name holds any other character cannot be referenced in
    an argument string at all (the workflow is rejected at load: "Unknown reference to A:ref" for a producer called !A)."""
    o = ord(c)
    return 48 <= o <= 57 or 65 <= o <= 90 or 97 <= o <= 122 or o == 45 or o == 95


def name_ok(s: str) -> bool:
    return 1 <= len(s) and all(_tok(c) for c in s) \
        and not s.startswith('stage') and s not in ('input', 'data', 'bin', 'conf') and not s[-1:].isdigit()


def consumer(refs, args):
    return {'stage': 0, 'name': 'C', 'references': list(refs), 'command': {'executable': 'x', 'arguments': args},
            'variables': {}, 'workflowAttributes': {}}


def check_replica(rep_name, other_name, spelling_rep, spelling_other, r, n, tail=':ref'):
    rep_abs = 'stage0.%s%s' % (rep_name, tail)
    other_abs = 'stage0.%s%s' % (other_name, tail)
    t_rep = rep_abs if spelling_rep == 'abs' else '%s%s' % (rep_name, tail)
    t_other = other_abs if spelling_other == 'abs' else '%s%s' % (other_name, tail)
    comp = consumer([rep_abs, other_abs], '-a %s -b %s' % (t_rep, t_other))
    out = FlowIR.compile_component_replica(comp, r, n, [rep_abs])
    fn = tail[1:].rsplit(':', 1)[0] if tail.startswith('/') else None
    method = tail.rsplit(':', 1)[1]
    want_rep = (0, '%s%d' % (rep_name, r), fn, method)
    want_other = (0, other_name, fn, method)
    refs = out['references']
    toks = out['command']['arguments'].split()
    return (len(refs) == 2 and P(refs[0]) == want_rep and P(refs[1]) == want_other and len(toks) == 4
            and P(toks[1]) == want_rep and P(toks[3]) == want_other
            and out['name'] == 'C%d' % r and out['variables']['replica'] == r)


def _c03_replica_A_replicated_other_symbolic(s: str) -> bool:
    """
    pre: 1 <= len(s) <= 2 and _tok(s[0]) and _tok(s[-1]) and ':' not in s and '/' not in s and '.' not in s and '%' not in s and ' ' not in s and ',' not in s and '=' not in s and s[-1] not in '0123456789' and s != 'A'
    post: _
    """
    if not isinstance(s, str) or type(s) is str:
        # native call (sweep / replay): all spellings
        ok = True
        for sp1 in ('abs', 'rel'):
            for sp2 in ('abs', 'rel'):
                ok = ok and check_replica('A', s, sp1, sp2, 1, 2)
        return ok and check_replica('A', s, 'rel', 'rel', 0, 3, '/out/f.txt:copy')
    return check_replica('A', s, 'rel', 'abs', 1, 2)


def _c03_replica_A_replicated_other_symbolic_pre(s):
    return len(s) <= 2 and name_ok(s) and s != 'A'


def _c03_replica_symbolic_replicated_other_AB(s: str) -> bool:
    """
    pre: 1 <= len(s) <= 2 and _tok(s[0]) and _tok(s[-1]) and ':' not in s and '/' not in s and '.' not in s and '%' not in s and ' ' not in s and ',' not in s and '=' not in s and s[-1] not in '0123456789' and s != 'AB'
    post: _
    """
    if type(s) is str:
        ok = True
        for sp1 in ('abs', 'rel'):
            for sp2 in ('abs', 'rel'):
                ok = ok and check_replica(s, 'AB', sp1, sp2, 1, 2)
        return ok
    return check_replica(s, 'AB', 'rel', 'abs', 1, 2)


def _c03_replica_symbolic_replicated_other_AB_pre(s):
    return len(s) <= 2 and name_ok(s) and s != 'AB'


def _c03_replica_file_path(f: str) -> bool:
    """
    pre: 1 <= len(f) <= 3 and all('!' <= c <= '~' for c in f) and ':' not in f and '%' not in f and not f.startswith('/') and not f.endswith('/') and '//' not in f
    post: _
    """
    return check_replica('A', 'B', 'rel', 'abs', 2, 3, '/%s:copy' % f)


def _c03_replica_file_path_pre(f):
    return 1 <= len(f) <= 3 and all('!' <= c <= '~' for c in f) and not any(c in f for c in ':% ') \
        and not f.startswith('/') and not f.endswith('/') and '//' not in f


def check_two_replicated(first, second, r, n):
    """A replicated consumer of two replicated producers: copy r consumes copy r of both, whatever their names."""
    a, b = 'stage0.%s:ref' % first, 'stage0.%s:ref' % second
    comp = consumer([a, b], '-a %s:ref -b %s' % (first, b))
    out = FlowIR.compile_component_replica(comp, r, n, [a, b])
    want = [(0, '%s%d' % (first, r), None, 'ref'), (0, '%s%d' % (second, r), None, 'ref')]
    toks = out['command']['arguments'].split()
    return [P(x) for x in out['references']] == want and len(toks) == 4 and [P(toks[1]), P(toks[3])] == want


def _c03_replica_two_replicated_producers(s: str) -> bool:
    """
    pre: 1 <= len(s) <= 2 and _tok(s[0]) and _tok(s[-1]) and ':' not in s and '/' not in s and '.' not in s and '%' not in s and ' ' not in s and ',' not in s and '=' not in s and s[-1] not in '0123456789' and s != 'A'
    post: _
    """
    if type(s) is str:
        return check_two_replicated('A', s, 1, 2) and check_two_replicated(s, 'A', 1, 2) and check_two_replicated('A', s, 0, 3)
    return check_two_replicated('A', s, 1, 2)


_c03_replica_two_replicated_producers_pre = _c03_replica_A_replicated_other_symbolic_pre


def check_aggregate(rep_name, other_name, spelling, n, tail=':ref'):
    rep_abs = 'stage0.%s%s' % (rep_name, tail)
    other_abs = 'stage0.%s%s' % (other_name, tail)
    t_rep = rep_abs if spelling == 'abs' else '%s%s' % (rep_name, tail)
    comp = consumer([rep_abs, other_abs], '%s %s' % (t_rep, other_abs))
    out = FlowIR.compile_component_aggregate(comp, n, [rep_abs])
    fn = tail[1:].rsplit(':', 1)[0] if tail.startswith('/') else None
    method = tail.rsplit(':', 1)[1]
    want = [(0, '%s%d' % (rep_name, i), fn, method) for i in range(n)] + [(0, other_name, fn, method)]
    refs = [P(x) for x in out['references']]
    toks = [P(x) for x in out['command']['arguments'].split()]
    return refs == want and toks == want and out['name'] == 'C'


def _n03_aggregate_symbolic_replicated(s: str) -> bool:
    """
    (native sweep only -- not a CrossHair condition: one path of compile_component_aggregate over a symbolic REPLICATED name
    takes more than 90 s and ~900 solver choices, so its reachability twin was never refuted; the symbolic OTHER name is
    covered by _c03_aggregate_A_replicated_other_symbolic.)
    pre: 1 <= len(s) <= 2 and _tok(s[0]) and _tok(s[-1]) and ':' not in s and '/' not in s and '.' not in s and '%' not in s and ' ' not in s and ',' not in s and '=' not in s and s[-1] not in '0123456789' and s != 'AB'
    post: _
    """
    if type(s) is str:
        return check_aggregate(s, 'AB', 'abs', 2) and check_aggregate(s, 'AB', 'rel', 3) and \
            check_aggregate(s, 'AB', 'rel', 2, '/f.txt:copy') and check_aggregate(s, 'AB', 'rel', 12)
    return check_aggregate(s, 'AB', 'rel', 2)


_n03_aggregate_symbolic_replicated_pre = _c03_replica_symbolic_replicated_other_AB_pre


def _c03_aggregate_A_replicated_other_symbolic(s: str) -> bool:
    """
    pre: 1 <= len(s) <= 2 and _tok(s[0]) and _tok(s[-1]) and ':' not in s and '/' not in s and '.' not in s and '%' not in s and ' ' not in s and ',' not in s and '=' not in s and s[-1] not in '0123456789' and s != 'A'
    post: _
    """
    if type(s) is str:
        return check_aggregate('A', s, 'abs', 2) and check_aggregate('A', s, 'rel', 2)
    return check_aggregate('A', s, 'rel', 2)


_c03_aggregate_A_replicated_other_symbolic_pre = _c03_replica_A_replicated_other_symbolic_pre

ALPHA = ['A', 'B', 'a', '-', '+', '_', '(', '#']


def _strings(maxlen, alpha=ALPHA):
    out, frontier = [''], ['']
    for _ in range(maxlen):
        frontier = [p + c for p in frontier for c in alpha]
        out += frontier
    return out


def sweep(mod):
    s2 = [(s,) for s in _strings(2)]
    yield '_c03_replica_A_replicated_other_symbolic', s2
    yield '_c03_replica_symbolic_replicated_other_AB', s2
    yield '_c03_replica_two_replicated_producers', s2
    yield '_c03_replica_file_path', [(s,) for s in _strings(3, ['a', '.', '/', '-', '*'])]
    yield '_n03_aggregate_symbolic_replicated', s2
    yield '_c03_aggregate_A_replicated_other_symbolic', s2
