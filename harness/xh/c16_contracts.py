"""PEP316 contracts for C16: canonicalisation kernel ComponentSpecification._memoization_info_to_hash.
hashlib.md5 is replaced by a recorder whose hexdigest() is the byte string that was fed to it
(assumption: md5 is injective on the inputs compared)."""
import networkx  # noqa warm-up

import experiment.model.graph as graph

ALLOWED_EXCEPTIONS = ()


class _Md5(object):
    def __init__(self):
        self.buf = b''

    def update(self, b):
        self.buf += b

    def hexdigest(self):
        return self.buf.decode('utf-8')


class _Hashlib(object):
    @staticmethod
    def md5():
        return _Md5()


def canon(info):
    saved = graph.hashlib
    graph.hashlib = _Hashlib
    try:
        return graph.ComponentSpecification._memoization_info_to_hash(info)
    finally:
        graph.hashlib = saved


def info(files, executable, arguments, image):
    d = {'files': list(files), 'command': {'executable': executable, 'arguments': arguments}, 'backend': {}}
    if image is not None:
        d['backend'] = {'image': image}
    return d


def _c16_arguments_distinguish(a: str, b: str) -> bool:
    """
    pre: len(a) <= 3 and len(b) <= 3 and a != b
    post: _
    """
    return canon(info([], 'exe', a, None)) != canon(info([], 'exe', b, None))


def _c16_arguments_distinguish_pre(a, b):
    return len(a) <= 3 and len(b) <= 3 and a != b


def _c16_executable_arguments_boundary(a: str, e: str) -> bool:
    """
    pre: len(a) <= 2 and len(e) <= 2
    post: _
    """
    # moving characters across the arguments/executable boundary must change the hash
    return a == '' or canon(info([], e, a, None)) != canon(info([], a[-1] + e, a[:-1], None)) or (a[-1] + e, a[:-1]) == (e, a)


def _c16_executable_arguments_boundary_pre(a, e):
    return len(a) <= 2 and len(e) <= 2


def _c16_files_boundary(x: str, y: str) -> bool:
    """
    pre: 1 <= len(x) <= 2 and 1 <= len(y) <= 2 and 33 <= ord(x[0]) <= 126 and 33 <= ord(y[0]) <= 126 and 33 <= ord(x[-1]) <= 126 and 33 <= ord(y[-1]) <= 126
    post: _
    """
    # two file entries [x, y] versus one entry [x+y] and versus [x[:-1], x[-1]+y]
    h = canon(info([x + ':ref', y + ':ref'], 'exe', '', None))
    return h != canon(info([x + ':ref' + y + ':ref'], 'exe', '', None))


def _c16_files_boundary_pre(x, y):
    return 1 <= len(x) <= 2 and 1 <= len(y) <= 2 and all(33 <= ord(c) <= 126 for c in x + y)


def _c16_files_order_irrelevant(x: str, y: str) -> bool:
    """
    pre: len(x) <= 2 and len(y) <= 2
    post: _
    """
    return canon(info([x, y], 'exe', 'a', 'img')) == canon(info([y, x], 'exe', 'a', 'img'))


def _c16_files_order_irrelevant_pre(x, y):
    return len(x) <= 2 and len(y) <= 2


def _c16_image_distinguishes(i: str, j: str) -> bool:
    """
    pre: len(i) <= 3 and len(j) <= 3 and i != j
    post: _
    """
    return canon(info([], 'exe', 'a', i)) != canon(info([], 'exe', 'a', j))


_c16_image_distinguishes_pre = _c16_arguments_distinguish_pre


def _c16_image_vs_none(i: str) -> bool:
    """
    pre: len(i) <= 3
    post: _
    """
    return canon(info([], 'exe', 'a', i)) != canon(info([], 'exe', 'a', None))


def _c16_image_vs_none_pre(i):
    return len(i) <= 3

ALPHA = ['a', 'e', ':', 'r', ' ']


def _strings(maxlen, alpha=ALPHA):
    out, frontier = [''], ['']
    for _ in range(maxlen):
        frontier = [p + c for p in frontier for c in alpha]
        out += frontier
    return out


def sweep(mod):
    s2 = _strings(2)
    pairs = [(a, b) for a in s2 for b in s2]
    yield '_c16_arguments_distinguish', pairs
    yield '_c16_executable_arguments_boundary', pairs
    yield '_c16_files_boundary', pairs
    yield '_c16_files_order_irrelevant', pairs
    yield '_c16_image_distinguishes', pairs
    yield '_c16_image_vs_none', [(s,) for s in _strings(3)]
