"""C18 -- staging and deployment never write outside their target directory (engine E1, segment level).

Real code per path: data.StageReference (copy / link / extract branches with the real posixpath),
storage.ExperimentPackage.expandPackageToDirectory, flowir.Manifest.__init__/validate.
The archive, the file system and shutil are models (listed in the evidence): what is symbolic is the
structure of member names / link targets / manifest keys as sequences of path segments.
"""
import io
import os
import posixpath
import shutil
import tarfile
import tempfile
import types

import experiment.model.data as data
import experiment.model.errors as errors
import experiment.model.storage as storage
from experiment.model.frontends.flowir import Manifest

from symx.runner import explore_parallel, Report, replay_assignment

SEGS = ['..', '.', 'a', 'c2']     # 'c2': a sibling whose name starts with the name of the working directory 'c'
WD = '/wd/c'


def sym_path(ctx, label, max_segs, allow_abs=True):
    n = ctx.choice(label + ':segments', list(range(1, max_segs + 1)))
    segs = [ctx.choice('%s:seg%d' % (label, i), SEGS) for i in range(n)]
    lead = '/' if (allow_abs and ctx.flag(label + ':absolute')) else ''
    trail = '/' if ctx.flag(label + ':trailing_slash') else ''
    return lead + '/'.join(segs) + trail


def inside(path, root):
    p = posixpath.normpath(path)
    r = posixpath.normpath(root)
    return p == r or p.startswith(r + '/')


class FSModel(object):
    """Records every location that is created or modified; resolves later names through earlier symlinks."""

    def __init__(self):
        self.writes = []
        self.links = {}     # normalised path of a symlink -> normalised absolute target

    def resolve(self, path):
        p = posixpath.normpath(path)
        for _ in range(8):
            hit = None
            for l, t in self.links.items():
                if p == l:
                    continue   # operating on the link itself
                if p.startswith(l + '/'):
                    hit = (l, t)
                    break
            if hit is None:
                return p
            p = posixpath.normpath(hit[1] + p[len(hit[0]):])
        return p

    def write(self, path, what):
        self.writes.append((self.resolve(path), what))


class StubMember(object):
    def __init__(self, name, kind, linkname=''):
        self.name = name
        self.kind = kind
        self.linkname = linkname

    def issym(self): return self.kind == 'symlink'
    def islnk(self): return self.kind == 'hardlink'
    def isdir(self): return self.kind == 'dir'
    def isfile(self): return self.kind == 'file'
    def isreg(self): return self.kind == 'file'


class StubTar(object):
    def __init__(self, members, fs):
        self.members = members
        self.fs = fs

    def __enter__(self): return self
    def __exit__(self, *a): return False
    def getmembers(self): return list(self.members)
    def close(self): pass

    def extractall(self, dest, members=None, **kw):
        # model of TarFile.extractall with the (3.12 default) fully trusted filter
        for m in self.members:
            name = m.name.lstrip('/') if False else m.name
            path = posixpath.join(dest, name)
            if m.issym():
                loc = self.fs.resolve(path)
                self.fs.writes.append((loc, 'symlink'))
                tgt = m.linkname if m.linkname.startswith('/') else posixpath.join(posixpath.dirname(loc), m.linkname)
                self.fs.links[loc] = posixpath.normpath(tgt)
            else:
                self.fs.write(path, m.kind)


def snapshot(root):
    """(path -> (kind, size, mtime_ns, link target)) for everything under root, not following symlinks."""
    out = {}
    for d, dirs, files in os.walk(root, followlinks=False):
        for n in dirs + files:
            p = os.path.join(d, n)
            st = os.lstat(p)
            out[p] = ('l' if os.path.islink(p) else ('d' if os.path.isdir(p) else 'f'), st.st_size if not os.path.isdir(p) else 0,
                      st.st_mtime_ns if not os.path.isdir(p) else 0, os.readlink(p) if os.path.islink(p) else None)
    return out


def body_extract(n_members, max_segs):
    """Real tarfile + real OS in a sandbox: <root>/wd/c is the working directory, <root>/wd/c2 a sibling, <root>/abs the
    place 'absolute' member names and link targets point to (absolute names are spelled below the sandbox root)."""
    def body(ctx):
        root = tempfile.mkdtemp(prefix='verif-c18-', dir='/dev/shm' if os.path.isdir('/dev/shm') else None)
        try:
            wd = os.path.join(root, 'wd', 'c')
            os.makedirs(wd)
            os.makedirs(os.path.join(root, 'wd', 'c2'))
            os.makedirs(os.path.join(root, 'abs'))
            with open(os.path.join(root, 'wd', 'victim.txt'), 'w') as f:
                f.write('do not touch')
            members = []
            archive = os.path.join(root, 'a.tar')
            with tarfile.open(archive, 'w') as tar:
                for i in range(n_members):
                    if n_members == 1:
                        kind = ctx.choice('m%d:type' % i, ['file', 'dir', 'symlink', 'hardlink'])
                        name = sym_path(ctx, 'm%d:name' % i, max_segs)
                        link = sym_path(ctx, 'm%d:link' % i, 2) if kind in ('symlink', 'hardlink') else ''
                    elif i == 0:
                        # two-member archives: a link first ...
                        kind = ctx.choice('m0:type', ['symlink', 'hardlink'])
                        name = sym_path(ctx, 'm0:name', max_segs, allow_abs=False).rstrip('/')
                        link = sym_path(ctx, 'm0:link', 2)
                        first_name = name
                    else:
                        # ... then a regular member that is written through it (or next to it)
                        kind = ctx.choice('m1:type', ['file', 'dir'])
                        tail = sym_path(ctx, 'm1:tail', 2, allow_abs=False)
                        name = (first_name + '/' + tail) if ctx.flag('m1:through_the_link') else tail
                        link = ''
                    if name.startswith('/'):
                        name = os.path.join(root, 'abs') + name
                    if link.startswith('/'):
                        link = os.path.join(root, 'abs') + link
                    info = tarfile.TarInfo(name)
                    info.mtime = 1000
                    if kind == 'file':
                        info.size = 7
                        tar.addfile(info, io.BytesIO(b'payload'))
                    else:
                        info.type = {'dir': tarfile.DIRTYPE, 'symlink': tarfile.SYMTYPE, 'hardlink': tarfile.LNKTYPE}[kind]
                        info.linkname = link
                        info.mode = 0o755
                        tar.addfile(info)
                    members.append((kind, name.replace(root, '<root>'), link.replace(root, '<root>')))
            loc = types.SimpleNamespace(path=ctx.choice('workdir_spelling', [wd, wd + '/']))
            earlier = ctx.choice('earlier_staging_of_the_same_component', ['none', 'link'])
            if earlier == 'link':
                # an earlier `link` reference of the same component: <wd>/a -> <root>/abs/a (a directory outside), staged by the real code
                os.makedirs(os.path.join(root, 'abs', 'a'))
                lref = types.SimpleNamespace(method='link', resolve=lambda g: os.path.join(root, 'abs', 'a'),
                                             stringRepresentation='/somewhere/a:link')
                data.StageReference(lref, loc, None)
                ctx.check(os.path.islink(os.path.join(wd, 'a')), 'harness: the earlier link reference was staged', None)
                ctx.witness('extraction_after_link_staging')
            before = snapshot(root)
            ref = types.SimpleNamespace(method='extract', resolve=lambda g: archive, stringRepresentation='stage0.p/a.tar:extract')
            try:
                data.StageReference(ref, loc, None)
                rejected = False
            except errors.DataReferenceCouldNotStageError:
                rejected = True
            except (RecursionError, tarfile.TarError, KeyError):
                # the archive is malformed for tarfile itself (e.g. a hard link to itself): nothing is claimed about
                # the exception type then, only that nothing was written outside
                rejected = True
            after = snapshot(root)
            changed = sorted(p for p in after if before.get(p) != after[p])
            removed = sorted(p for p in before if p not in after)
            outside = [p.replace(root, '<root>') for p in changed + removed
                       if not (p == wd or p.startswith(wd + os.sep))]
            detail = {'members': members, 'earlier_staging': earlier, 'workdir': loc.path.replace(root, '<root>'), 'rejected': rejected,
                      'changed': [p.replace(root, '<root>') for p in changed][:8]}
            ctx.check(not outside, 'every extracted member lands inside the working directory', (outside, detail))
            if rejected:
                ctx.witness('offending_archive_rejected')
            else:
                ctx.witness('benign_archive_accepted')
            return ('rejected' if rejected else 'extracted', tuple(sorted(p.replace(root, '') for p in changed)))
        finally:
            shutil.rmtree(root, ignore_errors=True)
    return body


def body_copy_link(ctx):
    fs = FSModel()
    method = ctx.choice('method', ['copy', 'copyout', 'link'])
    is_dir = ctx.flag('source_is_directory')
    src = '/inst/stages/stage0/p/' + sym_path(ctx, 'fileref', 3, allow_abs=False)
    # a path that ends in '.', '..' or '/' can only name a directory
    ctx.assume(is_dir or not (src.endswith('/') or src.rsplit('/', 1)[1] in ('.', '..')))
    loc = types.SimpleNamespace(path=ctx.choice('workdir_spelling', [WD, WD + '/']))
    ref = types.SimpleNamespace(method=method, resolve=lambda g: src, stringRepresentation='ref')

    def exists_dir(p):     # the working directory and its ancestors exist
        q = posixpath.normpath(p)
        return q == WD or WD.startswith(q.rstrip('/') + '/') or q == '/'

    def copytree(s, d, symlinks=False):
        if exists_dir(d):
            raise FileExistsError(d)
        fs.write(d, 'copytree')

    def copy(s, d):
        # shutil.copy into an existing directory creates <dir>/<basename(src)>
        if exists_dir(d):
            d = posixpath.join(d, posixpath.basename(s))
        fs.write(d, 'copy')

    def symlink(s, d):
        if exists_dir(d):
            raise FileExistsError(d)
        fs.write(d, 'symlink')
    sh = types.SimpleNamespace(copytree=copytree, copy=copy, Error=data.shutil.Error)
    saved = (data.shutil, data.os)
    osproxy = _OsProxy(symlink=symlink, exists=lambda p: True, isdir=lambda p: is_dir)
    data.shutil, data.os = sh, osproxy
    try:
        try:
            data.StageReference(ref, loc, None)
            rejected = False
        except errors.DataReferenceCouldNotStageError:
            rejected = True
    finally:
        data.shutil, data.os = saved
    detail = {'method': method, 'source': src, 'is_dir': is_dir, 'writes': fs.writes}
    bad = [w for w in fs.writes if not inside(w[0], WD)]
    ctx.check(not bad, 'copy/link staging only creates entries inside the working directory', (bad, detail))
    if not rejected and fs.writes:
        ctx.witness('copy_or_link_staged')
    return (rejected, fs.writes)


class _OsPathProxy(object):
    def __init__(self, **over):
        self._over = over

    def __getattr__(self, n):
        if n in self._over:
            return self._over[n]
        return getattr(posixpath, n)


class _OsProxy(object):
    def __init__(self, symlink=None, makedirs=None, exists=None, isdir=None):
        self._over = {}
        if symlink:
            self._over['symlink'] = symlink
        if makedirs:
            self._over['makedirs'] = makedirs
        po = {}
        if exists:
            po['exists'] = exists
        if isdir:
            po['isdir'] = isdir
        self.path = _OsPathProxy(**po)

    def __getattr__(self, n):
        if n in self._over:
            return self._over[n]
        return getattr(os, n)


def body_manifest(max_segs):
    """Real shutil/os in a sandbox: <root>/pkg holds the package (conf/flowir_package.yaml, src/data, src/bin), <root>/inst
    is the new instance directory; anything created, modified or removed outside <root>/inst counts."""
    def body(ctx):
        root = tempfile.mkdtemp(prefix='verif-c18m-', dir='/dev/shm' if os.path.isdir('/dev/shm') else None)
        try:
            for d in ('pkg/conf', 'pkg/src/data/deep', 'pkg/src/bin', 'abs'):
                os.makedirs(os.path.join(root, d))
            for f in ('pkg/conf/flowir_package.yaml', 'pkg/src/data/file.txt', 'pkg/src/data/deep/x.txt', 'pkg/src/bin/tool'):
                with open(os.path.join(root, f), 'w') as fh:
                    fh.write('content of ' + f)
            target = os.path.join(root, 'inst')
            key = sym_path(ctx, 'key', max_segs)
            if key.startswith('/'):
                key = os.path.join(root, 'abs') + key
            method = ctx.choice('method', ['copy', 'link', None, 'junk'])
            manifest = {key: '../src/data' + ((':' + method) if method else '')}
            second = ctx.choice('second_entry', ['none', 'bin', 'nested-under-first', 'same-folder-dot-slash', 'same-folder-trailing-dot',
                                                 'same-folder-trailing-slash'])
            if second == 'bin':
                manifest['bin'] = '../src/bin:copy'
            elif second == 'nested-under-first':
                manifest[key.rstrip('/') + '/sub'] = '../src/bin:copy'
            elif second.startswith('same-folder'):
                # the folder the first entry populated (possibly a link out of the instance), spelled differently
                other = {'same-folder-dot-slash': './' + key.lstrip('/') if not key.startswith('/') else key + '/.',
                         'same-folder-trailing-dot': key.rstrip('/') + '/.',
                         'same-folder-trailing-slash': key.rstrip('/') + '/'}[second]
                ctx.assume(other != key)
                manifest[other] = '../src/bin:copy'
            validated = ctx.flag('manifest_validated_before_deployment')
            detail = {'manifest': {k.replace(root, '<root>'): v for k, v in manifest.items()}, 'validated': validated}
            try:
                m = Manifest(dict(manifest), validate=validated)
                mdata = m.manifestData
            except errors.FlowIRManifestException as e:
                ctx.witness('manifest_rejected')
                return 'invalid-manifest'
            attrs = {'location': os.path.join(root, 'pkg', 'conf', 'flowir_package.yaml'), 'manifestData': dict(mdata),
                     'configuration': types.SimpleNamespace(isExperimentPackageDirectory=False)}
            Sub = type('HPkg', (storage.ExperimentPackage,), {k: property(lambda self, v=v: v) for k, v in attrs.items()})
            pkg = object.__new__(Sub)
            before = snapshot(root)
            try:
                pkg.expandPackageToDirectory(target)
                err = None
            except (errors.PackageCreateError, ValueError, OSError, shutil.Error) as e:
                err = e
            after = snapshot(root)
            changed = sorted(p for p in after if before.get(p) != after[p]) + sorted(p for p in before if p not in after)
            outside = [p.replace(root, '<root>') for p in changed if not (p == target or p.startswith(target + os.sep))]
            ctx.check(not outside, 'deploying a package creates entries only beneath the instance directory',
                      (outside, detail, repr(err)[:200]))
            if err is None:
                ctx.witness('manifest_deployed')
            return (repr(err)[:40], tuple(p.replace(root, '') for p in changed)[:6])
        finally:
            shutil.rmtree(root, ignore_errors=True)
    return body


def factory(param):
    k = param['kind']
    if k == 'extract':
        return body_extract(param['members'], param['segs'])
    if k == 'manifest':
        return body_manifest(param['segs'])
    return body_copy_link


def signature(param, assignment, message, detail):
    try:
        bad = detail[0]
        info = detail[1]
    except Exception:
        bad, info = None, {}
    if param['kind'] == 'extract':
        ms = info.get('members', [])
        dotdot = any('..' in (m[1] + '/' + m[2]).split('/') for m in ms)
        if len(ms) > 1:
            return 'extract|%s|members=%d' % (message, len(ms))
        link = any(m[0] in ('symlink', 'hardlink') for m in ms)
        return 'extract|%s|dotdot=%s|link=%s' % (message, dotdot, link)
    if param['kind'] == 'manifest':
        keys = list(info.get('manifest', {'': ''}))
        nested = len(keys) > 1 and keys[1].startswith(keys[0].rstrip('/') + '/')
        linked = ':link' in str(list(info.get('manifest', {'': ''}).values())[:1])
        return 'manifest|%s|dotdot=%s|nested-under-linked-key=%s' % (message, '..' in keys[0].split('/'), nested and linked)
    return '%s|%s' % (param['kind'], message)


def main(tier, seed, only=None):
    rep = Report('C18', tier, seed)
    rep.functions = ['data.StageReference (copy/copyout/link/extract)', 'storage.ExperimentPackage.expandPackageToDirectory',
                     'flowir.Manifest.__init__/validate/manifestData']
    quick = tier == 'quick'
    rep.bounds = {'archive': '%d member(s), names of <= %d segments from %s with optional leading/trailing slash, type file/dir/symlink/hardlink, '
                             'link targets of <= 2 segments' % (1 if quick else 2, 2 if quick else 3, SEGS),
                  'manifest': 'one key of <= %d segments, method copy/link/none/junk, optional second entry (bin, or a key nested under the first), with and without prior validation; real shutil/os in a sandbox' % (3 if quick else 4),
                  'copy/link': 'file path of <= 3 segments, file or directory source'}
    rep.outside = ['copy/link staging uses a model of shutil/os (archive extraction and manifest deployment use the real tarfile/shutil/OS in a sandbox)', 'character-level tricks inside one segment',
                   'Job.stageIn loop (calls StageReference per reference)', 'copying source trees that contain symlinks']
    rep.assumptions = ['extraction: real tar archives and the real tarfile/OS in a scratch sandbox; absolute member names and link targets are spelled below <sandbox>/abs; every created, modified or removed entry outside the working directory counts',
                       'shutil.copytree/os.symlink fail with FileExistsError when the destination is the target directory or one of its ancestors',
                       'the solver only enumerates the structure choices: each path is one concrete archive/manifest']
    rep.explanation = ('bounded symbolic execution (symx/z3) over the segment structure of member names, link targets and manifest keys; the real '
                       'guard code runs natively on every path; writes recorded by a file-system model')
    rep.required_witnesses = ['offending_archive_rejected', 'benign_archive_accepted', 'copy_or_link_staged', 'manifest_deployed', 'extraction_after_link_staging']
    params = [{'kind': 'extract', 'members': 1, 'segs': 2 if quick else 3, 'name': 'extract-1'},
              {'kind': 'copylink', 'name': 'copylink'},
              {'kind': 'manifest', 'segs': 3 if quick else 4, 'name': 'manifest'}]
    if not quick:
        params.append({'kind': 'extract', 'members': 2, 'segs': 2, 'name': 'extract-2'})
    if only:
        params = [p for p in params if p['name'] in only]
        rep.required_witnesses = []
    s = explore_parallel('confinement', factory, params, signature=signature, seed=seed, chunk=300, validate=False,
                         max_paths=3000000)
    rep.add(s)
    return rep.finish()


def replay(v):
    st, msg, detail = replay_assignment(factory, v['param'], v['assignment'])
    print('replay: %s %s %s' % (st, msg, detail))
    return 1 if st == 'violation' else 0
