"""C01 -- tasks start only after everything they consume from is finished (engine E1).

One inductive step of the real scheduler from an arbitrary recorded state:
Controller._schedule -> _input_dependencies_satisfied -> _comp_get_active_predecessors ->
_true_nodes_from_identifiers / node_is_active / get_compstate -> _fake_finish_with_state /
finalize_submit_components -> ComponentState.stageIn()/run(); plus the obligations that keep
the invariant "ref in comp_done => component state final" (finishedCheck, kill_all_components,
initialise.init_comps).
"""
import types

import networkx
import z3

import experiment.appenv
import experiment.model.codes as codes
import experiment.runtime.control as control
import experiment.runtime.monitor as monitor_mod
import reactivex

from symx.runner import explore_parallel, Report, replay_assignment
from harness.rt_stubs import FINAL, FakeJob, HEngine, HComp, StubTracker, new_controller, Patch

STATES = [codes.RUNNING_STATE, codes.POSTMORTEM_STATE, codes.FINISHED_STATE, codes.FAILED_STATE,
          codes.SHUTDOWN_STATE]


class RxProxy(object):
    """reactivex with merge() replaced: subscriptions are recorded, nothing is threaded."""
    def __init__(self):
        self.internal = reactivex.internal

    def __getattr__(self, n):
        return getattr(reactivex, n)

    @staticmethod
    def merge(*sources):
        return _Merged(sources)


class _Merged(object):
    def __init__(self, sources):
        self.sources = sources

    def pipe(self, *ops):
        return self

    def subscribe(self, on_next=None, on_error=None, on_completed=None):
        for s in self.sources:
            s.subscribe(on_next=on_next, on_error=on_error)


class World(object):
    """Symbolic recorded state of the controller over a symbolic two-stage DAG."""

    def __init__(self, ctx, n, placeholders=False):
        self.ctx = ctx
        self.n = n
        self.names = []
        self.comps = {}
        self.vars = {}
        self.decided = {}
        self.launch_log = []
        self.finish_log = []
        g = networkx.DiGraph()
        # symbolic shape: stage of each node (non-decreasing), forward edges
        stages = [0]
        for i in range(1, n):
            stages.append(1 if (stages[-1] == 1 or ctx.flag('stage1:%d' % i)) else 0)
        self.stages = stages
        for i in range(n):
            name = 'stage%d.c%d' % (stages[i], i)
            self.names.append(name)
        for i in range(n):
            job = FakeJob(stages[i], 'c%d' % i)
            eng = HEngine(job)
            comp = PComp(job, eng, self)
            comp.world = self
            self.comps[self.names[i]] = comp
            g.add_node(self.names[i], component=(lambda c=comp: c), stageIndex=stages[i])
        for j in range(n):
            for i in range(j):
                if ctx.flag('edge:%d>%d' % (i, j)):
                    g.add_edge(self.names[i], self.names[j])
        self.graph = g
        self.done = LazyDone(self)
        self.staged = LazyStaged(self)

    # --- per-node symbolic record (created on first touch)
    def rec(self, name):
        if name not in self.vars:
            ctx = self.ctx
            d = ctx.sym_bool('done:' + name)
            s = ctx.sym_bool('staged:' + name)
            fc = ctx.sym_bool('finishCalled:' + name)
            st = ctx.int('state:' + name, 0, 4)
            if ctx.symbolic:
                D, S, F, T = d.term, s.term, fc.term, st.term
                final = T >= 2
                ctx.assume(z3.And(
                    z3.Implies(D, final),                                  # (I)
                    z3.Implies(z3.And(z3.Not(S), z3.Not(D)), z3.And(T == 0, z3.Not(F))),   # never touched
                    z3.Implies(z3.And(z3.Not(S), D), z3.And(T == 2, z3.Not(F))),           # skipped stage
                    z3.Implies(F, S)))
            else:
                final = st >= 2
                ok = ((not d) or final) and (s or d or (st == 0 and not fc)) and \
                     (s or (not d) or (st == 2 and not fc)) and ((not fc) or s)
                ctx.assume(ok)
            self.vars[name] = {'done': d, 'staged': s, 'fc': fc, 'state': st}
            self.decided[name] = {}
        return self.vars[name]

    def get(self, name, what):
        dec = self.decided.get(name)
        if dec is None or what not in dec:
            v = self.ctx.concretize(self.rec(name)[what])
            self.decided[name][what] = v
            if what == 'state':
                comp = self.comps[name]
                stname = STATES[v]
                if v == 0:
                    pass
                elif v == 1:
                    comp._engine._exitReason = 'KnownIssue'
                else:
                    comp._engine._exitReason = 'Success' if stname == codes.FINISHED_STATE else 'KnownIssue'
                    comp._engine._shutdown = True
                    object.__setattr__(comp, '_cs', stname)
            if what == 'fc' and v:
                self.comps[name]._finishedCalled = True
        return self.decided[name][what]

    def pre(self, name, what):
        return self.get(name, what)


class PComp(HComp):
    """HComp whose recorded phase is decided lazily (forks at the read, returns real values)."""
    _cs = None

    def __init__(self, job, eng, world):
        self._decided_state = True
        self.world = world
        HComp.__init__(self, job, eng, sched=None)
        self._decided_state = False

    def _touch(self):
        if not self._decided_state:
            self._decided_state = True
            self.world.get(self._specification.reference, 'state')

    def finish(self, finalState):
        self.world.finish_log.append((self._specification.reference, finalState))
        HComp.finish(self, finalState)

    @property
    def controllerState(self):
        self._touch()
        return self._cs

    @controllerState.setter
    def controllerState(self, v):
        self._touch()
        self._cs = v

    @property
    def finishCalled(self):
        if self._finishedCalled:
            return True
        return self.world.get(self._specification.reference, 'fc')

    def stageIn(self, stageData=True):
        self.world.launch_log.append(('stageIn', self._specification.reference))
        HComp.stageIn(self, stageData)

    def run(self):
        self.world.launch_log.append(('run', self._specification.reference))
        HComp.run(self)


class LazyDone(object):
    def __init__(self, world):
        self.w = world
        self.added = set()

    def __contains__(self, name):
        if name in self.added:
            return True
        if name not in self.w.comps:
            return False
        return self.w.get(name, 'done')

    def add(self, name):
        self.added.add(name)


class LazyStaged(object):
    def __init__(self, world):
        self.w = world
        self.added = set()

    def __contains__(self, comp):
        name = comp._specification.reference
        if name in self.added:
            return True
        return self.w.get(name, 'staged')

    def add(self, comp):
        self.added.add(comp._specification.reference)


def setup(ctx, n, fixed_stage=False):
    w = World(ctx, n)
    ctl = new_controller()
    ctl.experiment = types.SimpleNamespace(
        experimentGraph=types.SimpleNamespace(graph=w.graph, _placeholders={}, _documents={}),
        numStages=lambda: 2)
    ctl.comp_done = w.done
    ctl.comp_staged_in = w.staged
    ctl.statusDatabase = types.SimpleNamespace(monitorComponent=lambda c: None)
    ctl._event_scheduler = types.SimpleNamespace(set=lambda: None, wait=lambda t=None: None, clear=lambda: None)
    ctl.generate_status_report_for_nodes = lambda components=None, filter_done=False: ''
    cur = 0 if (w.stages[-1] == 0 or fixed_stage) else ctx.choice('currentStage', [0, 1])
    ctl.currentStage = types.SimpleNamespace(index=cur, name='s', directory='/nonexistent')
    for i, name in enumerate(w.names):
        c = w.comps[name]
        job = c._specification
        job.workflowAttributes['isRepeat'] = LazyFlag(ctx, 'isRepeat:%d' % i)
        job.componentSpecification = LazySpec(ctx, i)
    return w, ctl


class LazyFlag(object):
    """A boolean option decided at first use; handed out as a real bool (the code uses `is False`)."""

    def __init__(self, ctx, name):
        self.ctx, self.name, self.v = ctx, name, None

    def value(self):
        if self.v is None:
            self.v = self.ctx.flag(self.name)
        return self.v


class _LazyWA(dict):
    def __getitem__(self, k):
        v = dict.__getitem__(self, k)
        return v.value() if isinstance(v, LazyFlag) else v

    def get(self, k, d=None):
        return self[k] if k in self else d


class LazySpec(object):
    def __init__(self, ctx, i):
        self._ctx, self._i, self._v = ctx, i, {}
        self.isAggregatingLoopedNodes = False
        self.isLooping = False
        self.workflowAttributes = {}
        self.commandDetails = {'executable': 'x'}

    def _f(self, n):
        if n not in self._v:
            self._v[n] = self._ctx.flag('%s:%d' % (n, self._i))
        return self._v[n]

    @property
    def isAggregating(self):
        return self._f('isAggregating')

    @property
    def isReplicating(self):
        return self._f('isReplicating')


def patched(p, tracker):
    p.set(control, 'reactivex', RxProxy())
    p.set(control, 'time', types.SimpleNamespace(sleep=lambda s: None))
    p.set(monitor_mod.MonitorExceptionTracker, 'defaultTracker', classmethod(lambda cls: tracker))
    hc = types.SimpleNamespace(handleMigration=lambda spec, exp: None)
    p.set(experiment.appenv.HybridConfiguration, 'defaultConfiguration', classmethod(lambda cls: hc))


def body_schedule(n):
    def body(ctx):
        w, ctl = setup(ctx, n, fixed_stage=True)
        for name in w.names:
            c = w.comps[name]
            c._specification.workflowAttributes = _LazyWA(c._specification.workflowAttributes)
        mode = ctx.choice('mode', ['normal', 'stop_executing', 'start_sleeping'])
        ctl.stop_executing = mode == 'stop_executing'
        ctl._start_sleeping = mode == 'start_sleeping'
        stop_pre = ctl.stop_executing
        tracker = StubTracker(lambda: True)
        with Patch() as p:
            patched(p, tracker)
            ctl._schedule(migrated_components=set())
        launched = []
        for kind, name in w.launch_log:
            if name not in launched:
                launched.append(name)
        for name in launched:
            kinds = [k for k, nm in w.launch_log if nm == name]
            c = w.comps[name]
            ctx.check(kinds in (['stageIn', 'run'], ['stageIn']), 'stage-in precedes run, each at most once', (name, kinds))
            ctx.check(not stop_pre, 'nothing is launched once the controller stopped executing', name)
            ctx.check(w.pre(name, 'staged') is False and STATES[w.pre(name, 'state')] not in FINAL,
                      'a launched component was neither staged nor final before', name)
            is_rep = c._specification.workflowAttributes['isRepeat']
            is_agg = c._specification.componentSpecification.isAggregating
            preds = list(w.graph.predecessors(name))
            rep_sd, rep_all, nonrep_sd = 0, 0, 0
            for pn in preds:
                pc = w.comps[pn]
                pst = STATES[w.pre(pn, 'state')]
                subject = is_rep and pc._specification.stageIndex == c._specification.stageIndex
                if preds:
                    ctx.witness('launched_with_predecessor')
                if subject:
                    ctx.witness('launched_observer_of_staged_subject')
                    shut_now = [f for f in w.finish_log if f[0] == pn]
                    ctx.check(w.pre(pn, 'done') or w.pre(pn, 'staged'),
                              'repeating consumer starts only after its same-stage producer was launched' +
                              (' [producer was shut down unlaunched by the same scheduler pass]' if shut_now else ''),
                              (name, pn))
                else:
                    ctx.check(w.pre(pn, 'done') and pst in FINAL,
                              'consumer starts only after the producer was observed in a final state', (name, pn, pst))
                ctx.check(pst != codes.FAILED_STATE, 'never launch a consumer of a failed producer', (name, pn))
                if not is_agg:
                    ctx.check(pst != codes.SHUTDOWN_STATE,
                              'never launch a non-aggregating consumer of a shut-down producer', (name, pn))
                else:
                    if pc._specification.componentSpecification.isReplicating:
                        rep_all += 1
                        rep_sd += pst == codes.SHUTDOWN_STATE
                    else:
                        nonrep_sd += pst == codes.SHUTDOWN_STATE
            if is_agg and preds:
                ctx.check(nonrep_sd == 0, 'aggregating consumer of a shut-down non-replicated producer is not launched', name)
                ctx.check(rep_all == 0 or rep_sd < rep_all,
                          'aggregating consumer whose replicated producers are all shut down is not launched', name)
        # fake-finished consumers: never *run*
        for name, fstate in w.finish_log:
            ctx.witness('fake_finished')
            ctx.check(name not in launched, 'a component shut down by the scheduler is not launched', name)
            ctx.check(fstate == codes.SHUTDOWN_STATE, 'scheduler only shuts components down', (name, fstate))
        return (tuple(w.stages), sorted(w.graph.edges()), tuple(w.launch_log))
    return body


def body_finished(n):
    """finishedCheck / kill_all_components / init_comps keep (I) and only grow comp_done."""
    def body(ctx):
        w, ctl = setup(ctx, n)
        for name in w.names:
            c = w.comps[name]
            c._specification.workflowAttributes = _LazyWA(c._specification.workflowAttributes)
        ctl._start_sleeping = ctx.flag('start_sleeping')
        which = ctx.choice('op', ['finishedCheck', 'kill_all', 'init_comps'])
        tracker = StubTracker(lambda: True)
        target = None
        with Patch() as p:
            patched(p, tracker)
            if which == 'finishedCheck':
                target = w.names[ctx.choice('target', list(range(n)))]
                c = w.comps[target]
                # calling contract: notifyFinished emits only once the component is not alive
                ctx.assume(STATES[w.pre(target, 'state')] in FINAL)
                ctl.finishedCheck(c.state, c)
                if not ctl._start_sleeping:
                    ctx.check(target in ctl.comp_done, 'finishedCheck records the component as done', target)
                    ctx.witness('finished_recorded')
                else:
                    ctx.check(ctl._component_finished_while_sleeping == [(c.state, c)],
                              'finishedCheck postponed while sleeping is queued', target)
            elif which == 'kill_all':
                ctl.kill_all_components(False)
                ctx.check(ctl.stop_executing is True, 'kill_all_components stops scheduling')
            else:
                start = ctx.choice('starting_index', [0, 1])
                ctl.currentStage = None
                ctl._starting_index = None
                stage = types.SimpleNamespace(index=start, name='s', directory='/nonexistent')
                ctl.initialise(stage, types.SimpleNamespace(monitorComponent=lambda c: None))
        ctx.check(w.launch_log == [], 'no component is launched by %s' % which, w.launch_log)
        for name in w.done.added:
            st = w.comps[name].state
            ctx.check(st in FINAL, '(I) ref in comp_done => final state after %s' % which, (name, st))
            ctx.witness('done_added')
        return (which, target, tuple(sorted(w.done.added)), tuple(sorted(w.staged.added)))
    return body


def factory(param):
    if param['kind'] == 'schedule':
        return body_schedule(param['n'])
    return body_finished(param['n'])


def signature(param, assignment, message, detail):
    return '%s|%s' % (param['kind'], message)


def main(tier, seed, only=None):
    rep = Report('C01', tier, seed)
    n = 3 if tier == 'quick' else 4
    max_paths = 1500000 if tier == 'quick' else 4000000
    rep.functions = ['control.Controller._schedule', '_input_dependencies_satisfied', '_comp_get_active_predecessors',
                     '_true_nodes_from_identifiers', 'node_is_active', 'get_compstate', '_fake_finish_with_state',
                     'finalize_submit_components', 'finishedCheck', 'kill_all_components', 'initialise(init_comps)',
                     '_stopComponents', 'get_components_in_stage', 'workflow.ComponentState.state/isAlive/finish/run']
    rep.bounds = {'nodes': n, 'stages': 2, 'shape': 'every forward-edge DAG over the nodes (symbolic edges and stage split)',
                  'recorded_state': 'per node: membership in comp_done / comp_staged_in, finishCalled, state in '
                                    '{running, checking, finished, failed, shutdown} constrained by invariant (I)',
                  'options': 'isRepeat, isAggregating, isReplicating per node; stop_executing; _start_sleeping; current stage',
                  'max_paths': max_paths}
    rep.outside = ['finishedCheck is assumed to be called only for a component that is not alive (rx contract of notifyFinished)',
                   'preemption inside _schedule (covered by the C02 scheduler harness)', 'memoization, migration, optimizer',
                   'DoWhile placeholders']
    rep.assumptions = ['components are subclasses of the real ComponentState with __init__ bypassed; stageIn()/run() recorded',
                       'reactivex.merge/notifyFinished/notifyPostMortem subscriptions are recorded, not threaded',
                       'WaitOnStability answers stable; HybridConfiguration.handleMigration no-op; status DB no-op',
                       'generate_status_report_for_nodes stubbed (logging only)',
                       'invariant (I) ref in comp_done => final state assumed on the pre-state and re-established '
                       'by finishedCheck/kill_all_components/init_comps (checked in the same run)']
    rep.explanation = ('one inductive step of the real scheduler from an arbitrary recorded state: symx/z3 bounded symbolic '
                       'execution, lazily created solver variables per node, every path re-validated natively')
    rep.required_witnesses = ['launched_with_predecessor', 'launched_observer_of_staged_subject', 'fake_finished',
                              'finished_recorded', 'done_added']
    params = [{'kind': 'schedule', 'n': n, 'name': 'schedule'}, {'kind': 'finished', 'n': n, 'name': 'invariant'}]
    if only:
        params = [p for p in params if p['name'] in only]
        rep.required_witnesses = []
    s = explore_parallel('schedule-step', factory, params, signature=signature, max_paths=max_paths, seed=seed, chunk=500)
    rep.add(s)
    return rep.finish()


def replay(v):
    st, msg, detail = replay_assignment(factory, v['param'], v['assignment'])
    print('replay: %s %s %s' % (st, msg, detail))
    return 1 if st == 'violation' else 0
