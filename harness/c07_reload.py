"""C07 -- an instance reloaded from its own files is the same experiment (engine E1, reduced claim).

What is symbolic: the shape of the package (FlowIR family of C15: replication / second platform / selected platform / 0-2
user variable files; DoWhile family of C05: loop binding, loop over one or two stages, extra looped component, which
component produces the condition, ...), the number of loop iterations instantiated before the reload, and the number of
store/load cycles.  Each path writes one concrete package to a scratch directory, loads it with the real loader writing the
instance files (conf/flowir_instance.yaml, conf/manifest.yaml), optionally instantiates iterations with
store_flowir_to_disk=True, reloads the directory with is_instance=True and compares components, resolved configurations,
data references and DoWhile state; a further load+store must leave the stored description unchanged.
The YAML layer (PyYAML) and the file system are real: nothing below the shape is symbolic, which is why this property was
first declared not applicable; it is claimed now with that limitation stated.
"""
import copy
import json
import os
import shutil
import tempfile

import yaml

import experiment.model.conf as conf
import experiment.model.graph as graph
from experiment.model.frontends.flowir import FlowIR

import harness.c05_dowhile as H05
import harness.c15_determinism as H15
from symx.runner import explore_parallel, Report, replay_assignment


def dump(g):
    out = {'nodes': sorted(g.graph.nodes), 'configuration': {}, 'dowhile': {}}
    for n in g.graph.nodes:
        c = copy.deepcopy(g.configurationForNode(n, raw=False))
        if isinstance(c.get('references'), list):
            c['references'] = sorted(c['references'])
        out['configuration'][n] = json.loads(json.dumps(c, sort_keys=True, default=repr))
    for name, entry in g._documents.get(FlowIR.LabelDoWhile, {}).items():
        out['dowhile'][name] = dict(entry.get('state') or {})
    return out


def differences(a, b):
    out = []
    if a['nodes'] != b['nodes']:
        out.append(('components', sorted(set(a['nodes']) ^ set(b['nodes']))[:6]))
    for n in a['nodes']:
        ca, cb = a['configuration'].get(n), b['configuration'].get(n)
        if cb is not None and ca != cb:
            keys = [k for k in sorted(set(ca) | set(cb)) if ca.get(k) != cb.get(k)]
            out.append(('configuration of %s' % n, {k: (ca.get(k), cb.get(k)) for k in keys[:3]}))
    if a['dowhile'] != b['dowhile']:
        out.append(('loop state', (a['dowhile'], b['dowhile'])))
    return out


def load(d, platform, files, is_instance, write):
    cfg = conf.ExperimentConfigurationFactory.configurationForExperiment(
        d, platform=platform, variable_files=files, is_instance=is_instance, createInstanceFiles=write, updateInstanceFiles=write,
        primitive=False)
    return graph.WorkflowGraph(configuration=cfg, platform=platform, primitive=False)


def stored(d):
    with open(os.path.join(d, 'conf', 'flowir_instance.yaml')) as f:
        text = f.read()
    obj = yaml.safe_load(text)
    # the components of a description are a set identified by (stage, name): their order in the file is not part of it
    if isinstance(obj, dict) and isinstance(obj.get('components'), list):
        obj['components'] = sorted(obj['components'], key=lambda c: (c.get('stage', 0), str(c.get('name'))))
    return obj, text


def body_factory(kind, max_iterations):
    def body(ctx):
        d = tempfile.mkdtemp(prefix='verif-c07-')
        try:
            os.makedirs(os.path.join(d, 'conf'))
            files = []
            if kind == 'dowhile':
                main, dw, shape = H05.documents(ctx)
                platform = 'default'
                with open(os.path.join(d, 'conf', 'dowhile.yaml'), 'w') as f:
                    yaml.safe_dump(dw, f)
                k = ctx.choice('iterations_before_reload', list(range(max_iterations + 1)))
            else:
                main, platform = H15.flowir_document(ctx)
                shape = {'platform': platform}
                k = 0
                for name in ctx.choice('variable_files', [(), ('first.yaml',), ('first.yaml', 'second.yaml')]):
                    p = os.path.join(d, name)
                    with open(p, 'w') as f:
                        yaml.safe_dump(H15.VARFILES[name], f)
                    files.append(p)
            with open(os.path.join(d, 'conf', 'flowir_package.yaml'), 'w') as f:
                yaml.safe_dump(main, f, sort_keys=False)
            cycles = ctx.choice('store_load_cycles', [1, 2])
            detail = {'kind': kind, 'shape': shape, 'iterations': k, 'cycles': cycles, 'variable_files': [os.path.basename(x) for x in files]}
            saved_env = os.environ.copy()
            os.environ.clear()
            os.environ.update({'PATH': '/usr/bin', 'HOME': '/home/u'})
            try:
                live = load(d, platform, files, False, True)
                for i in range(1, k + 1):
                    doc = live._documents[FlowIR.LabelDoWhile]['stage1.loop']['document']
                    live.instantiate_dowhile_next_iteration(doc, i, True)
                want = dump(live)
                ctx.witness('instance_stored')
                if files:
                    # the user-supplied variables took effect in the experiment that wrote the instance (so that "the same as
                    # the writer" below is not satisfied by both sides ignoring them)
                    names = [os.path.basename(x) for x in files]
                    exp = '%s %s' % (H15.VARFILES[[n for n in names if 'msg' in H15.VARFILES[n]['global']][-1]]['global']['msg'],
                                     H15.VARFILES[[n for n in names if 'extra' in H15.VARFILES[n]['global']][-1]]['global']['extra'])
                    node = [n for n in want['nodes'] if n.startswith('stage0.src')][0]
                    ctx.check(want['configuration'][node]['command']['arguments'] == exp,
                              'user-supplied variables are part of the experiment that is stored', (detail, want['configuration'][node]['command']['arguments'], exp))
                if k:
                    ctx.witness('iterations_instantiated_before_reload')
                if files:
                    ctx.witness('user_variables_supplied')
                for cycle in range(1, cycles + 1):
                    before_obj, before_text = stored(d)
                    # the reload gets the platform but not the variable files: they are part of the stored description
                    again = load(d, platform, [], True, cycle > 1 or ctx.flag('reload_updates_instance_files'))
                    got = dump(again)
                    diffs = differences(want, got)
                    ctx.check(not diffs, 'the reloaded instance has the same components, resolved configurations, references and loop state',
                              (detail, cycle, diffs[:4]))
                    after_obj, after_text = stored(d)
                    ctx.check(after_obj == before_obj, 'loading and storing again does not change the stored description',
                              (detail, cycle, _first_difference(before_obj, after_obj)))
                    if cycle > 1:
                        ctx.witness('second_cycle')
            finally:
                os.environ.clear()
                os.environ.update(saved_env)
            return (kind, k, cycles)
        finally:
            shutil.rmtree(d, ignore_errors=True)
    return body


def _first_difference(a, b, path=''):
    if type(a) is not type(b):
        return (path, repr(a)[:120], repr(b)[:120])
    if isinstance(a, dict):
        for key in sorted(set(a) | set(b), key=repr):
            if a.get(key) != b.get(key):
                return _first_difference(a.get(key), b.get(key), '%s.%s' % (path, key))
    if isinstance(a, list):
        for i, (x, y) in enumerate(zip(a, b)):
            if x != y:
                return _first_difference(x, y, '%s[%d]' % (path, i))
        if len(a) != len(b):
            return (path, 'lengths %d / %d' % (len(a), len(b)))
    return (path, repr(a)[:120], repr(b)[:120])


def factory(param):
    return body_factory(param['kind'], param.get('iterations', 2))


def signature(param, assignment, message, detail):
    return '%s|%s' % (param['kind'], message)


def main(tier, seed, only=None):
    rep = Report('C07', tier, seed)
    K = 2 if tier == 'quick' else 11
    rep.functions = ['conf.ExperimentConfigurationFactory.configurationForExperiment', 'FlowIRExperimentConfiguration.__init__/_initialize/'
                     '_generate_instance_files/store_unreplicated_flowir_to_disk', 'FlowIRConcrete.instance', 'flowir.package_document_load(is_instance=True)',
                     'FlowIR.pretty_flowir_sort / yaml_dump', 'graph.WorkflowGraph.__init__/_createCompleteGraph/instantiate_dowhile_next_iteration/'
                     'configurationForNode/update_dowhile_states']
    rep.bounds = {'packages': 'FlowIR family (replication, second platform, selected platform, 0-2 user variable files) and DoWhile family '
                              '(the document shapes of C05)', 'iterations instantiated before the reload': '0..%d' % K, 'store/load cycles': [1, 2],
                  'reload': 'is_instance=True with the same platform and no variable files; instance files rewritten or not'}
    rep.outside = ['Experiment / ExperimentInstanceDirectory construction (data.py, storage.py): the configuration layer is driven directly', 'anything below '
                   'the package shape (values are fixed tokens; PyYAML and the file system are real)', 'DOSINI instances (C19)', 'graph edges that do not '
                   'follow from a component\'s references (the live graph keeps edges from the condition producers of finished iterations to outside '
                   'consumers, a reloaded one only from the latest)', 'options patched at run time other than loop instantiation']
    rep.assumptions = ['each path is one concrete package written to a scratch directory (removed afterwards)', 'os.environ is a fixed two-variable environment during the loads']
    rep.explanation = ('bounded symbolic execution (symx/z3): package shape, number of instantiated iterations and of store/load cycles are solver variables; '
                       'the real loader, the real instance writer and the real reload run on every path; the reloaded graph is compared with the live one')
    rep.required_witnesses = ['instance_stored', 'iterations_instantiated_before_reload', 'user_variables_supplied', 'second_cycle']
    params = [{'kind': 'flowir', 'name': 'flowir'}, {'kind': 'dowhile', 'iterations': K, 'name': 'dowhile'}]
    if only:
        params = [p for p in params if p['name'] in only]
        rep.required_witnesses = []
    s = explore_parallel('store-reload', factory, params, signature=signature, seed=seed, chunk=8, validate=False)
    rep.add(s)
    return rep.finish()


def replay(v):
    st, msg, detail = replay_assignment(factory, v['param'], v['assignment'])
    print('replay: %s %s %s' % (st, msg, str(detail)[:3000]))
    return 1 if st == 'violation' else 0
