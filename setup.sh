#!/bin/sh
# Build the overlay venv /verif/.venv on top of /venv (offline).
set -e
HERE="$(cd "$(dirname "$0")" && pwd)"
V="$HERE/.venv"
if [ -x "$V/bin/python" ] && "$V/bin/python" -c "import z3, crosshair, cvc5, experiment" 2>/dev/null; then
    exit 0
fi
rm -rf "$V"
/venv/bin/python -m venv "$V"
SP="$V/lib/python3.12/site-packages"
echo "import site; site.addsitedir('/venv/lib/python3.12/site-packages')" > "$SP/_base.pth"
PIP_NO_INDEX=1 "$V/bin/pip" install -q --no-index --find-links /opt/veriftools/wheels crosshair-tool z3-solver cvc5 >/dev/null
"$V/bin/python" -c "import z3, crosshair, cvc5, experiment; print('overlay venv ready', z3.get_version_string())"
